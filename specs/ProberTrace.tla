---------------------------- MODULE ProberTrace ----------------------------
(* C18: every logged vector with its observed result is compared with the reference of Prober.tla. *)
EXTENDS Prober

Tr == ndJsonDeserialize("trace.ndjson")
VARIABLES l, bad, cnt
ClauseIds == {"C18_backoff", "C18_sweep", "C18_timing", "C18_flags_uri", "C18_flags_qps", "C18_flags_type", "C18_flags_drift", "C18_hash", "C18_nopanic"}

\* violations are collected up to a cap, but the first violation of every clause is always kept: a flood of violations of one
\* clause (another property's) must not hide the only violation of another
KeepBad(b, v) == Len(b) < 300 \/ \E c \in v : \A i \in DOMAIN b : c \notin b[i].ids

TInit == l = 1 /\ bad = <<>> /\ cnt = [c \in ClauseIds |-> 0] /\ done = FALSE

Checks(ev) ==
  CASE ev.kind = "backoff" -> {[id |-> "C18_backoff", ok |-> ev.res = Backoff(ev.base, ev.max, ev.n)]}
    [] ev.kind = "sweep" -> {[id |-> "C18_sweep", ok |-> SweepOK(ev.base, ev.max, ev.rs)]}
    [] ev.kind = "timing" -> LET r == Timing(ev.hdr, ev.trl) IN {[id |-> "C18_timing", ok |-> ev.rok = r.ok /\ (r.ok => ev.ms = r.ms)]}
    [] ev.kind = "flags" ->
         {[id |-> "C18_flags_uri", ok |-> ev.accepted =>
               /\ ev.isegs = <<"projects", ev.sproject, "instances", ev.sinstance>>
               /\ ev.dsegs = <<"projects", ev.sproject, "instances", ev.sinstance, "databases", ev.sdatabase>>
               /\ ev.csegs = <<"projects", ev.sproject, "instanceConfigs", ev.sicfg>>],
          [id |-> "C18_flags_qps", ok |-> ev.accepted => ev.ipos],
          [id |-> "C18_flags_type", ok |-> ev.accepted => ev.typeok],
          [id |-> "C18_flags_drift", ok |-> TRUE]}
    [] ev.kind = "hash" -> {[id |-> "C18_hash", ok |-> ev.hashok]}
    [] OTHER -> {}

Step ==
  /\ l <= Len(Tr)
  /\ LET ev == Tr[l] IN
     \E cs \in {Checks(ev) \cup {[id |-> "C18_nopanic", ok |-> ~ev.panic]}} :
       LET v == {c.id : c \in {x \in cs : ~x.ok}}
           tags == IF ev.kind = "flags" /\ ev.qps = "tiny" THEN {"qps-tiny"} ELSE {}
       IN /\ bad' = IF v # {} /\ KeepBad(bad, v) THEN Append(bad, [l |-> l, sid |-> ev.kind, i |-> ev.id, ids |-> v, tags |-> tags]) ELSE bad
          /\ cnt' = [c \in ClauseIds |-> cnt[c] + (IF c \in {x.id : x \in cs} THEN 1 ELSE 0)]
  /\ l' = l + 1
  /\ UNCHANGED done

Finish ==
  /\ l = Len(Tr) + 1
  /\ PrintT(<<"VERDICT", ToJson([n |-> Len(Tr), bad |-> bad, cnt |-> cnt])>>)
  /\ l' = l + 1
  /\ UNCHANGED <<bad, cnt, done>>

TNext == Step \/ Finish
=============================================================================
