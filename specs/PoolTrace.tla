----------------------------- MODULE PoolTrace -----------------------------
(***************************************************************************)
(* Trace validation of the real pool against the property layer: reads a    *)
(* trace recorded by harness/grpcgcp (ndjson, several scripts separated by  *)
(* "reset" events), rebuilds the ghost with GhostNext and evaluates every   *)
(* clause on every event.  Violations are collected (not stopped at) and    *)
(* printed as one JSON verdict at the end of the trace.                     *)
(***************************************************************************)
EXTENDS PoolGhost, Json

Tr == ndJsonDeserialize("trace.ndjson")

VARIABLES l, g, bad, cnt
vars == <<l, g, bad, cnt>>

ZeroCfg == [min |-> 0, max |-> 0, wm |-> 0, fb |-> FALSE, uc |-> 0, ums |-> 0, rr |-> FALSE, nopool |-> FALSE]

\* violations are collected up to a cap, but the first violation of every clause is always kept: a flood of violations of one
\* clause (another property's) must not hide the only violation of another
KeepBad(b, v) == Len(b) < 300 \/ \E c \in v : \A i \in DOMAIN b : c \notin b[i].ids

TInit == /\ l = 1
         /\ g = GhostInit(ZeroCfg)
         /\ bad = <<>>
         /\ cnt = [c \in ClauseIds |-> 0]

Step ==
  /\ l <= Len(Tr)
  /\ LET ev == Tr[l] IN
     IF ev.op = "reset"
     THEN /\ g' = GhostInit(ev.cfg)
          /\ UNCHANGED <<bad, cnt>>
     ELSE IF ev.op = "stress"
     THEN LET isRR == ev.kind \in {"rr", "rrwrap"}
              v == IF isRR THEN (IF ~StressRROK(ev) THEN {"C09_s"} ELSE {})
                   ELSE (IF ~StressOK(ev) THEN {"C03_s"} ELSE {}) \cup (IF ~StressLeakOK(ev) THEN {"C02_s"} ELSE {}) \cup (IF ~StressCntOK(ev) THEN {"C04_s"} ELSE {})
          IN /\ g' = g
             /\ bad' = IF v # {} /\ KeepBad(bad, v) THEN Append(bad, [l |-> l, sid |-> ev.sid, i |-> ev.i, ids |-> v, tags |-> {}]) ELSE bad
             /\ cnt' = IF isRR THEN [cnt EXCEPT !["C09_s"] = @ + 1] ELSE [cnt EXCEPT !["C03_s"] = @ + 1, !["C02_s"] = @ + 1, !["C04_s"] = @ + 1]
     ELSE \E g2 \in {GhostNext(g, ev)} :        \* bound once: TLC re-evaluates LET definitions at every use
          \E x \in {Exercised(g, ev, g2)} :
            LET v == {c.id : c \in {y \in x : ~y.ok}}
                xi == {c.id : c \in x}
            IN /\ g' = g2
               /\ bad' = IF v # {} /\ KeepBad(bad, v) THEN Append(bad, [l |-> l, sid |-> ev.sid, i |-> ev.i, ids |-> v, tags |-> Tags(g2)]) ELSE bad
               /\ cnt' = [c \in ClauseIds |-> IF c \in xi THEN cnt[c] + 1 ELSE cnt[c]]
  /\ l' = l + 1

Finish ==
  /\ l = Len(Tr) + 1
  /\ PrintT(<<"VERDICT", ToJson([n |-> Len(Tr), bad |-> bad, cnt |-> cnt])>>)
  /\ l' = l + 1
  /\ UNCHANGED <<g, bad, cnt>>

TNext == Step \/ Finish
TSpec == TInit /\ [][TNext]_vars
=============================================================================
