----------------------------- MODULE StreamTrace -----------------------------
(* Trace validation of the real interceptors against StreamGhost: every clause on every recorded event. *)
EXTENDS StreamGhost, Json

Tr == ndJsonDeserialize("trace.ndjson")

VARIABLES l, g, bad, cnt
vars == <<l, g, bad, cnt>>

\* violations are collected up to a cap, but the first violation of every clause is always kept: a flood of violations of one
\* clause (another property's) must not hide the only violation of another
KeepBad(b, v) == Len(b) < 300 \/ \E c \in v : \A i \in DOMAIN b : c \notin b[i].ids

TInit == l = 1 /\ g = SGInit /\ bad = <<>> /\ cnt = [c \in SClauseIds |-> 0]

Step ==
  /\ l <= Len(Tr)
  /\ LET ev == Tr[l] IN
     \E g2 \in {SGNext(g, ev)} :
     \E x \in {SExercised(g, ev, g2)} :
       LET v == {c.id : c \in {y \in x : ~y.ok}}
           xi == {c.id : c \in x}
       IN /\ g' = g2
          /\ bad' = IF v # {} /\ KeepBad(bad, v)
                    THEN Append(bad, [l |-> l, sid |-> ev.sid, i |-> ev.i, ids |-> v, tags |-> STags(g, ev, g2)]) ELSE bad
          /\ cnt' = [c \in SClauseIds |-> IF c \in xi THEN cnt[c] + 1 ELSE cnt[c]]
  /\ l' = l + 1

Finish ==
  /\ l = Len(Tr) + 1
  /\ PrintT(<<"VERDICT", ToJson([n |-> Len(Tr), bad |-> bad, cnt |-> cnt])>>)
  /\ l' = l + 1
  /\ UNCHANGED <<g, bad, cnt>>

TNext == Step \/ Finish
=============================================================================
