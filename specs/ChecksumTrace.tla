--------------------------- MODULE ChecksumTrace ---------------------------
(* C19: every logged (standard encoding, codec output, decode flags) is checked against Checksum.tla. *)
EXTENDS Checksum, Json

Tr == ndJsonDeserialize("trace.ndjson")
VARIABLES l, bad, cnt
ClauseIds == {"C19_a", "C19_b", "C19_c", "C19_d", "C19_e"}

\* violations are collected up to a cap, but the first violation of every clause is always kept: a flood of violations of one
\* clause (another property's) must not hide the only violation of another
KeepBad(b, v) == Len(b) < 300 \/ \E c \in v : \A i \in DOMAIN b : c \notin b[i].ids

TInit == l = 1 /\ bad = <<>> /\ cnt = [c \in ClauseIds |-> 0]

Step ==
  /\ l <= Len(Tr)
  /\ LET ev == Tr[l] IN
     \E fr \in {Frame(ev.std)} :
       LET v == (IF ev.out # fr THEN {"C19_a"} ELSE {})
                \cup (IF ParseFields(ev.out) # <<[f |-> 2047, wt |-> 5, raw |-> LE32(CRC32C(ev.std))]>> \o ParseFields(ev.std) THEN {"C19_b"} ELSE {})
                \cup (IF ~(ev.decok /\ ev.stdok) THEN {"C19_c"} ELSE {})
                \cup (IF ~ev.errok THEN {"C19_d"} ELSE {})
                \cup (IF ev.panic THEN {"C19_e"} ELSE {})
       IN /\ bad' = IF v # {} /\ KeepBad(bad, v) THEN Append(bad, [l |-> l, sid |-> ev.kind, i |-> ev.id, ids |-> v, tags |-> {}]) ELSE bad
          /\ cnt' = [c \in ClauseIds |-> cnt[c] + 1]
  /\ l' = l + 1

Finish ==
  /\ l = Len(Tr) + 1
  /\ PrintT(<<"VERDICT", ToJson([n |-> Len(Tr), bad |-> bad, cnt |-> cnt])>>)
  /\ l' = l + 1
  /\ UNCHANGED <<bad, cnt>>

TNext == Step \/ Finish
=============================================================================
