---------------------------- MODULE PoolConform ----------------------------
(***************************************************************************)
(* Conformance of the mechanism layer to the code ("drift monitor"): a trace *)
(* recorded from the real balancer is replayed through the actions of        *)
(* Pool.tla - the inputs are taken from the trace, the model's internal      *)
(* nondeterminism (ties between equally loaded channels, Go map order) is    *)
(* resolved by TLC - and every recorded output must be an output the         *)
(* mechanism allows: result, connection returned, the balancer's calls on    *)
(* its ClientConn, white-box counters.  A script on which no behaviour of    *)
(* the mechanism matches is counted as drift (never a VIOLATION: it means    *)
(* TLC's proof about Pool.tla does not transfer to what the code just did).  *)
(***************************************************************************)
EXTENDS Pool

TrC == ndJsonDeserialize("trace.ndjson")

VARIABLES l, drift, okn
cvars == <<l, drift, okn>>

SeqBag(s) == [x \in {s[i] : i \in DOMAIN s} |-> Cardinality({i \in DOMAIN s : s[i] = x})]
CCNorm(cc) == [i \in DOMAIN cc |-> [k |-> cc[i].k, c |-> cc[i].c, av |-> cc[i].av, ok |-> cc[i].ok, s |-> cc[i].s, pk |-> cc[i].pk]]

CONSTANT MatchLevel
Match(m, e) ==
  /\ m.res = e.res
  /\ (e.res = "SC" => m.rc = e.rc /\ m.rn = e.rn)
  /\ (MatchLevel >= 2 => SeqBag(CCNorm(m.cc)) = SeqBag(CCNorm(e.cc)))
  /\ (MatchLevel >= 3 /\ e.wb.ok => (m.wb.streams = e.wb.streams /\ m.wb.nr = e.wb.nr /\ m.wb.nc = e.wb.nc /\ m.wb.nt = e.wb.nt /\ m.wb.pool = e.wb.pool /\ m.wb.refr = e.wb.refr))

Reinit ==
  /\ nconn' = 0 /\ scst' = [c \in Conns |-> "none"] /\ scref' = [c \in Conns |-> 0] /\ refr' = [c \in Conns |-> 0]
  /\ slots' = <<>> /\ affm' = [k \in Keys |-> 0] /\ fbm' = [k \in Keys |-> 0] /\ cnt' = [R |-> 0, C |-> 0, T |-> 0]
  /\ gst' = "IDLE" /\ pubs' = <<>> /\ calls' = <<>> /\ addrs' = 0 /\ cfgd' = FALSE /\ ecfg' = EffCfg(RawCfg) /\ meth' = TRUE
  /\ now' = 0 /\ failing' = FALSE /\ failIn' = 0 /\ rrid' = -1 /\ pend' = <<>>
  /\ g' = GhostInit(RawCfg) /\ ev' = [op |-> "reset"] /\ hist' = <<>>

\* a SKIPPED input still consumed one tick of the virtual clock
SkippedStep ==
  /\ now' = now + 1
  /\ UNCHANGED <<nconn, scst, scref, refr, slots, affm, fbm, cnt, gst, pubs, calls, addrs, cfgd, ecfg, meth, failing, failIn, rrid, pend, g, ev, hist>>

StepOf(e) ==
  CASE e.op = "resolve" -> Resolve(e.av, e.cfgk)
    [] e.op = "rerr" -> ResolverError
    [] e.op = "state" -> Report(e.c, e.s)
    [] e.op = "pick" -> Pick(e.pk, e.m, e.keys, e.shape, e.noctx, IF e.dl > 0 THEN e.dl - e.t ELSE 0)
    [] e.op = "done" -> DoneCall(e.n, e.out, e.rkeys)
    [] e.op = "advance" -> Advance(e.d)
    [] e.op = "factory" -> (Factory(e.fail, e.after) \/ (~(failing # e.fail \/ (e.fail /\ failIn # e.after)) /\ SkippedStep))
    [] e.op \in {"await", "cancel"} -> \E j \in DOMAIN pend : Await(j, e.op = "cancel", IF e.auto THEN 0 ELSE 1)
    [] OTHER -> FALSE

Follow ==
  /\ l <= Len(TrC)
  /\ LET e == TrC[l] IN
     IF e.op = "reset" THEN Reinit /\ okn' = okn /\ drift' = drift
     ELSE IF e.op = "end" THEN UNCHANGED vars /\ okn' = okn + 1 /\ drift' = drift
     ELSE IF e.res = "SKIPPED" THEN SkippedStep /\ UNCHANGED <<okn, drift>>
     ELSE StepOf(e) /\ Match(ev', e) /\ UNCHANGED <<okn, drift>>
  /\ l' = l + 1

\* position of the next script boundary after l
NextReset == LET S == {j \in (l + 1)..Len(TrC) : TrC[j].op = "reset"} IN IF S = {} THEN Len(TrC) + 1 ELSE CHOOSE j \in S : \A k \in S : j <= k

\* no behaviour of the mechanism matches the recorded event: count the script as drift and go on with the next one
GiveUp ==
  /\ l <= Len(TrC)
  /\ ~ENABLED Follow
  /\ PrintT(<<"DRIFT", ToJson([l |-> l, sid |-> TrC[l].sid, i |-> TrC[l].i, op |-> TrC[l].op, res |-> TrC[l].res,
                                now |-> now, npend |-> Len(pend), ncalls |-> Len(calls), nconn |-> nconn, slots |-> slots])>>)
  /\ l' = NextReset
  /\ drift' = drift + 1 /\ okn' = okn
  /\ UNCHANGED vars

Finish ==
  /\ l = Len(TrC) + 1
  /\ PrintT(<<"VERDICT", ToJson([n |-> Len(TrC), ok |-> okn, drift |-> drift])>>)
  /\ l' = l + 1
  /\ UNCHANGED <<vars, drift, okn>>

CInit == Init /\ l = 1 /\ drift = 0 /\ okn = 0
CNext == Follow \/ GiveUp \/ Finish
=============================================================================
