------------------------------ MODULE Checksum ------------------------------
(***************************************************************************)
(* C19: byte-level reference of the end-to-end checksum codec.  32-bit       *)
(* words are pairs <<hi16, lo16>> because TLC integers are 32-bit signed.    *)
(*   Frame(p) = varint((2047 << 3) | 5) \o LE32(CRC32C(p)) \o p             *)
(* ParseFields is a protobuf wire-format scanner (field number, wire type,   *)
(* raw value bytes) used for the "any conforming parser" reading.            *)
(***************************************************************************)
EXTENDS Integers, Sequences, Bitwise, TLC

Xor32(a, b) == <<a[1] ^^ b[1], a[2] ^^ b[2]>>
Shr1(a) == <<shiftR(a[1], 1), shiftR(a[2], 1) + (a[1] % 2) * 32768>>
Shr8(a) == <<shiftR(a[1], 8), shiftR(a[2], 8) + (a[1] % 256) * 256>>
Poly == <<33526, 15224>>          \* 0x82F63B78, the reflected Castagnoli polynomial

RECURSIVE Rounds(_, _)
Rounds(c, n) == IF n = 0 THEN c ELSE Rounds(IF c[2] % 2 = 1 THEN Xor32(Shr1(c), Poly) ELSE Shr1(c), n - 1)
Table == [i \in 0..255 |-> Rounds(<<0, i>>, 8)]

CRC32C(bytes) ==
  LET F[k \in 0..Len(bytes)] == IF k = 0 THEN <<65535, 65535>>
                                ELSE LET c == F[k - 1] IN Xor32(Table[(c[2] % 256) ^^ bytes[k]], Shr8(c))
  IN Xor32(F[Len(bytes)], <<65535, 65535>>)

LE32(w) == <<w[2] % 256, w[2] \div 256, w[1] % 256, w[1] \div 256>>
ChecksumTag == <<253, 127>>        \* varint of (2047 << 3) | 5 = 16381
Frame(p) == ChecksumTag \o LE32(CRC32C(p)) \o p

\* ---- wire-format scanner: returns a sequence of [f, wt, raw] or <<"malformed">>
\* varint at position i: [val, next] (val is exact only below 2^28; field numbers in the traces are small)
RECURSIVE Varint(_, _, _, _)
Varint(b, i, shift, acc) ==
  IF i > Len(b) THEN [ok |-> FALSE, val |-> 0, next |-> i]
  ELSE LET x == b[i]
           acc2 == IF shift <= 21 THEN acc + (x % 128) * (2 ^ shift) ELSE acc
       IN IF x < 128 THEN [ok |-> TRUE, val |-> acc2, next |-> i + 1] ELSE Varint(b, i + 1, shift + 7, acc2)

RECURSIVE Scan(_, _)
Scan(b, i) ==
  IF i > Len(b) THEN <<>>
  ELSE LET t == Varint(b, i, 0, 0) IN
       IF ~t.ok THEN <<[f |-> -1, wt |-> -1, raw |-> <<>>]>>
       ELSE LET f == t.val \div 8
                wt == t.val % 8
                j == t.next
            IN CASE wt = 0 -> LET v == Varint(b, j, 0, 0) IN
                              IF ~v.ok THEN <<[f |-> -1, wt |-> -1, raw |-> <<>>]>>
                              ELSE <<[f |-> f, wt |-> 0, raw |-> SubSeq(b, j, v.next - 1)]>> \o Scan(b, v.next)
                 [] wt = 1 -> IF j + 7 > Len(b) THEN <<[f |-> -1, wt |-> -1, raw |-> <<>>]>>
                              ELSE <<[f |-> f, wt |-> 1, raw |-> SubSeq(b, j, j + 7)]>> \o Scan(b, j + 8)
                 [] wt = 5 -> IF j + 3 > Len(b) THEN <<[f |-> -1, wt |-> -1, raw |-> <<>>]>>
                              ELSE <<[f |-> f, wt |-> 5, raw |-> SubSeq(b, j, j + 3)]>> \o Scan(b, j + 4)
                 [] wt = 2 -> LET n == Varint(b, j, 0, 0) IN
                              IF ~n.ok \/ n.next + n.val - 1 > Len(b) THEN <<[f |-> -1, wt |-> -1, raw |-> <<>>]>>
                              ELSE <<[f |-> f, wt |-> 2, raw |-> SubSeq(b, n.next, n.next + n.val - 1)]>> \o Scan(b, n.next + n.val)
                 [] OTHER -> <<[f |-> -1, wt |-> -1, raw |-> <<>>]>>
ParseFields(b) == Scan(b, 1)
=============================================================================
