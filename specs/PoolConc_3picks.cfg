CONSTANTS
 Picks = {1, 2, 3, 4}
 PickerOf = 0
 MaxSize = 4
 InitSize = 1
 CheckUnderLock = TRUE
 NPickers = 3
SPECIFICATION Spec
INVARIANTS PoolBound NoSelfLock LocksetOK
PROPERTIES AllFinish
CHECK_DEADLOCK FALSE
