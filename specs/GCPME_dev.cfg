CONSTANTS
 MaxDepth = 5
 Endpoints = {"a", "b", "c"}
 OptSets = {1, 2, 3, 6, 7, 8}
 MaxRpc = 2
 MaxSever = 1
 Ticks = {}
INIT Init
NEXT Next
VIEW View
CHECK_DEADLOCK FALSE
INVARIANTS TypeOK GhostAgrees
PROPERTIES PAll
