CONSTANTS
 CfgMin = 1
 CfgMax = 2
 CfgWm = 1
 CfgFb = FALSE
 CfgUc = 0
 CfgUms = 0
 CfgRr = FALSE
 Keys = {1, 2}
 AVs = {1, 2}
 States = {"IDLE", "CONNECTING", "READY", "TF", "SHUTDOWN"}
 Methods = {"PLAIN", "BIND", "BOUND", "UNBIND"}
 Outs = {"OK", "ERR"}
 Dls = {0}
 Advs = {}
 CfgKinds = {"first"}
 MaxConn = 3
 MaxCalls = 3
 MaxPub = 8
 MaxDepth = 6
 StalePick = 1
 UseFail = FALSE
 UseUnknown = FALSE
 UseBadReq = FALSE
INIT Init
NEXT Next
VIEW View
CHECK_DEADLOCK FALSE
INVARIANTS TypeOK GhostAgrees
PROPERTIES P01 P02 P03 P04 P05 P06 P07 P08 P09 P17 P20
