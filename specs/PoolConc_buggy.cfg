CONSTANTS
 Picks = {1, 2}
 PickerOf = 0
 MaxSize = 3
 InitSize = 2
 CheckUnderLock = FALSE
 NPickers = 2
SPECIFICATION Spec
INVARIANTS PoolBound NoSelfLock
CHECK_DEADLOCK FALSE
