------------------------------ MODULE PoolConc ------------------------------
(***************************************************************************)
(* Concurrency model of the pool (gcp_balancer.go / gcp_picker.go).         *)
(*                                                                         *)
(* Part 1 (dynamic): the growth path of Pick refined to its critical        *)
(* sections with the two mutexes explicit (gb.mu, one p.mu per published     *)
(* picker), several pick processes on current and stale pickers, and the     *)
(* environment reporting new connections READY.  TLC checks                  *)
(*   - PoolBound : the pool never exceeds maxSize  (C03 under races),        *)
(*   - NoSelfLock: no process ever waits for a mutex it holds (C06),         *)
(*   - deadlock freedom (every process can finish).                          *)
(* CheckUnderLock selects the code variant: FALSE = size test outside the    *)
(* creation lock (the code before the repair: TLC finds the interleaving     *)
(* "two picks read size < max, one creates, new connection READY, the other  *)
(* creates"), TRUE = size re-checked under the lock (the repaired code).     *)
(*                                                                         *)
(* Part 2 (static): the locking discipline as a table of critical sections   *)
(* with the locks held and the memory locations read/written, and the        *)
(* lockset condition over every pair of sections that the concurrency        *)
(* contract allows to overlap (balancer callbacks are serialised; picks and  *)
(* completions are free).  OVERLAPS is printed for the race drivers.         *)
(***************************************************************************)
EXTENDS Integers, Sequences, FiniteSets, TLC, Json

CONSTANTS Picks,           \* pick processes
          PickerOf,        \* not used as a function in cfg; see PK below
          MaxSize, InitSize, CheckUnderLock, NPickers

VARIABLES mu,       \* holder of gb.mu (0 = free, else the process)
          pmu,      \* picker -> holder of p.mu
          pc,       \* process -> program counter
          sz,       \* process -> pool size it read
          conns,    \* sequence of connection states ("IDLE" | "READY")
          created   \* number of connections created by picks

vars == <<mu, pmu, pc, sz, conns, created>>

\* pick process i uses picker ((i - 1) % NPickers) + 1 : with NPickers = 2 two picks never share a picker mutex
PK(p) == ((p - 1) % NPickers) + 1

Init ==
  /\ mu = 0
  /\ pmu = [k \in 1..NPickers |-> 0]
  /\ pc = [p \in Picks |-> "start"]
  /\ sz = [p \in Picks |-> 0]
  /\ conns = [i \in 1..InitSize |-> "READY"]
  /\ created = 0

\* ---- Pick on a saturated picker (every READY channel at the watermark): the growth decision
LockPicker(p) == /\ pc[p] = "start" /\ pmu[PK(p)] = 0
                 /\ pmu' = [pmu EXCEPT ![PK(p)] = p] /\ pc' = [pc EXCEPT ![p] = "acqsize"]
                 /\ UNCHANGED <<mu, sz, conns, created>>
\* getConnectionPoolSize(): gb.mu.Lock(); len(scRefs); Unlock()
AcqSize(p) == /\ pc[p] = "acqsize" /\ mu = 0
              /\ mu' = p /\ pc' = [pc EXCEPT ![p] = "size"] /\ UNCHANGED <<pmu, sz, conns, created>>
ReadSize(p) == /\ pc[p] = "size" /\ mu = p
               /\ sz' = [sz EXCEPT ![p] = Len(conns)] /\ mu' = 0
               /\ pc' = [pc EXCEPT ![p] = IF Len(conns) < MaxSize THEN "acqgrow" ELSE "unlock"]
               /\ UNCHANGED <<pmu, conns, created>>
\* newSubConn(): gb.mu.Lock(); refuse while a connection is IDLE/CONNECTING; addSubConn(); Unlock()
AcqGrow(p) == /\ pc[p] = "acqgrow" /\ mu = 0
              /\ mu' = p /\ pc' = [pc EXCEPT ![p] = "grow"] /\ UNCHANGED <<pmu, sz, conns, created>>
Grow(p) == /\ pc[p] = "grow" /\ mu = p
           /\ LET busy == \E i \in DOMAIN conns : conns[i] = "IDLE"
                  full == CheckUnderLock /\ Len(conns) >= MaxSize
              IN IF busy \/ full THEN UNCHANGED <<conns, created>>
                 ELSE conns' = Append(conns, "IDLE") /\ created' = created + 1
           /\ mu' = 0 /\ pc' = [pc EXCEPT ![p] = "unlock"]
           /\ UNCHANGED <<pmu, sz>>
UnlockPicker(p) == /\ pc[p] = "unlock"
                   /\ pmu' = [pmu EXCEPT ![PK(p)] = 0] /\ pc' = [pc EXCEPT ![p] = "done"]
                   /\ UNCHANGED <<mu, sz, conns, created>>

\* ---- environment (serialised balancer callbacks): a connecting connection becomes READY (takes and releases gb.mu)
EnvReady == /\ mu = 0
            /\ \E i \in DOMAIN conns : conns[i] = "IDLE" /\ conns' = [conns EXCEPT ![i] = "READY"]
            /\ UNCHANGED <<mu, pmu, pc, sz, created>>

Next == (\E p \in Picks : LockPicker(p) \/ AcqSize(p) \/ ReadSize(p) \/ AcqGrow(p) \/ Grow(p) \/ UnlockPicker(p)) \/ EnvReady
        \/ ((\A p \in Picks : pc[p] = "done") /\ UNCHANGED vars)
Spec == Init /\ [][Next]_vars /\ WF_vars(Next)

PoolBound == Len(conns) <= MaxSize
NoSelfLock == \A p \in Picks : ~(pc[p] \in {"acqsize", "acqgrow"} /\ mu = p)   \* never waits for a mutex it holds
AllFinish == <>(\A p \in Picks : pc[p] = "done")

----------------------------------------------------------------------------
\* Part 2: locking discipline (the repaired code)

\* kinds of goroutines: "env" (balancer callbacks, mutually serialised), "pick", "done"
\* locks: "gb" = gb.mu write, "gbR" = gb.mu read, "p" = the picker's own mutex, "ref" = subConnRef.mu
\* an access is [loc, w (write?), atomic]
A(loc, w, at) == [loc |-> loc, w |-> w, atomic |-> at]
Sections == {
  [name |-> "UpdateClientConnState", gates |-> {"UpdateClientConnState#1"},        kind |-> "env",  locks |-> {"gb"},
     acc |-> {A("addrs", TRUE, FALSE), A("cfg", TRUE, FALSE), A("scRefs", TRUE, FALSE), A("scStates", TRUE, FALSE), A("scRefList", TRUE, FALSE),
              A("refreshingScRefs", FALSE, FALSE), A("ref.subConn", FALSE, FALSE)}],
  [name |-> "UpdateSubConnState", gates |-> {"UpdateSubConnState#1"},           kind |-> "env",  locks |-> {"gb"},
     acc |-> {A("scRefs", TRUE, FALSE), A("scStates", TRUE, FALSE), A("refreshingScRefs", TRUE, FALSE), A("affinityMap", TRUE, FALSE),
              A("fallbackMap", TRUE, FALSE), A("state", TRUE, FALSE), A("picker", TRUE, FALSE), A("ref.refreshing", TRUE, FALSE),
              A("ref.stateSignal", TRUE, FALSE), A("ref.deCalls", TRUE, TRUE)}],
  [name |-> "UpdateSubConnState.swap", gates |-> {"UpdateSubConnState#2"},      kind |-> "env",  locks |-> {"gb", "ref"},
     acc |-> {A("ref.subConn", TRUE, FALSE), A("ref.lastResp", TRUE, FALSE), A("ref.refreshCnt", TRUE, FALSE)}],
  [name |-> "Pick.prologue", gates |-> {},                kind |-> "pick", locks |-> {},
     acc |-> {A("picker.scRefs", FALSE, FALSE), A("methodCfg", FALSE, FALSE), A("cfg", FALSE, FALSE)}],
  [name |-> "getReadySubConnRef", gates |-> {"getReadySubConnRef#1"},           kind |-> "pick", locks |-> {"p", "gb"},
     acc |-> {A("affinityMap", FALSE, FALSE), A("scStates", FALSE, FALSE), A("scRefs", FALSE, FALSE), A("fallbackMap", TRUE, FALSE),
              A("picker", FALSE, FALSE), A("ref.subConn", FALSE, FALSE), A("ref.streams", FALSE, TRUE)}],
  [name |-> "leastBusy", gates |-> {"getAndIncrementSubConnRef#1"},                    kind |-> "pick", locks |-> {"p"},
     acc |-> {A("picker.scRefs", FALSE, FALSE), A("ref.streams", FALSE, TRUE)}],
  [name |-> "getConnectionPoolSize", gates |-> {"getConnectionPoolSize#1"},        kind |-> "pick", locks |-> {"p", "gb"}, acc |-> {A("scRefs", FALSE, FALSE)}],
  [name |-> "newSubConn", gates |-> {"newSubConnIfBelow#1"},                   kind |-> "pick", locks |-> {"p", "gb"},
     acc |-> {A("scStates", TRUE, FALSE), A("scRefs", TRUE, FALSE), A("scRefList", TRUE, FALSE), A("addrs", FALSE, FALSE)}],
  [name |-> "getSubConnRoundRobin", gates |-> {"getSubConnRoundRobin#1", "getSubConnRoundRobin#2", "getSubConnRoundRobin#3"},         kind |-> "pick", locks |-> {"gbR"},
     acc |-> {A("scRefList", FALSE, FALSE), A("rrRefId", TRUE, TRUE), A("scStates", FALSE, FALSE), A("ref.subConn", FALSE, FALSE),
              A("ref.stateSignal", FALSE, FALSE)}],
  [name |-> "Pick.epilogue", gates |-> {"getSubConn#1"},                kind |-> "pick", locks |-> {"ref"},
     acc |-> {A("ref.subConn", FALSE, FALSE)}],
  [name |-> "Pick.streamsIncr", gates |-> {},             kind |-> "pick", locks |-> {}, acc |-> {A("ref.streams", TRUE, TRUE)}],
  [name |-> "Done.streamsDecr", gates |-> {},             kind |-> "done", locks |-> {}, acc |-> {A("ref.streams", TRUE, TRUE), A("cfg", FALSE, FALSE)}],
  [name |-> "Done.gotResp", gates |-> {"gotResp#1"},                 kind |-> "done", locks |-> {"ref"},
     acc |-> {A("ref.lastResp", TRUE, FALSE), A("ref.refreshCnt", TRUE, FALSE)}],
  [name |-> "Done.gotResp.deCalls", gates |-> {},         kind |-> "done", locks |-> {}, acc |-> {A("ref.deCalls", TRUE, TRUE)}],
  [name |-> "Done.detect", gates |-> {"respState#1"},                  kind |-> "done", locks |-> {"ref"},
     acc |-> {A("ref.lastResp", FALSE, FALSE), A("ref.refreshCnt", FALSE, FALSE)}],
  [name |-> "Done.deCallsInc", gates |-> {},              kind |-> "done", locks |-> {}, acc |-> {A("ref.deCalls", TRUE, TRUE)}],
  [name |-> "Done.refresh", gates |-> {"refresh#1"},                 kind |-> "done", locks |-> {"gb"},
     acc |-> {A("ref.refreshing", TRUE, FALSE), A("scRefs", FALSE, FALSE), A("ref.subConn", FALSE, FALSE), A("refreshingScRefs", TRUE, FALSE),
              A("addrs", FALSE, FALSE)}],
  [name |-> "Done.bind", gates |-> {"bindSubConnRef#1", "bindSubConn#1", "unbindSubConn#1"},   kind |-> "done", locks |-> {"gb"},
     acc |-> {A("affinityMap", TRUE, FALSE), A("scRefs", FALSE, FALSE), A("ref.subConn", FALSE, FALSE), A("ref.affinity", TRUE, TRUE)}],
  \* a round-robin BIND on an emptied pool re-creates a connection without a picker lock
  [name |-> "newSubConn.rr", gates |-> {"newSubConnIfBelow#1"}, kind |-> "pick", locks |-> {"gb"},
     acc |-> {A("scStates", TRUE, FALSE), A("scRefs", TRUE, FALSE), A("scRefList", TRUE, FALSE), A("addrs", FALSE, FALSE)}]
}

\* two sections may overlap unless both belong to the serialised environment
MayOverlap(a, b) == ~(a.kind = "env" /\ b.kind = "env")
\* a common lock orders them; a read lock on gb.mu excludes only the write lock
CommonLock(a, b) == \/ (a.locks \cap b.locks) \ {"gbR", "p"} # {}
                    \/ ("gb" \in a.locks /\ "gbR" \in b.locks) \/ ("gbR" \in a.locks /\ "gb" \in b.locks)
\* cfg, methodCfg and a picker's scRefs are written before the picker that exposes them is published (UpdateState orders them)
Published(loc) == loc \in {"cfg", "methodCfg", "picker.scRefs"}
Conflict(x, y) == x.loc = y.loc /\ (x.w \/ y.w) /\ ~(x.atomic /\ y.atomic) /\ ~Published(x.loc)
Racy(a, b) == MayOverlap(a, b) /\ ~CommonLock(a, b) /\ \E x \in a.acc, y \in b.acc : Conflict(x, y)
LocksetOK == \A a \in Sections, b \in Sections : ~Racy(a, b)
RacyPairs == {<<p[1].name, p[2].name>> : p \in {q \in Sections \X Sections : Racy(q[1], q[2])}}

Overlaps == {<<p[1].kind, p[2].kind>> : p \in {q \in Sections \X Sections : MayOverlap(q[1], q[2])}}
\* gate table: which locks are held (including the one being taken) at every lock acquisition site of the rewritten
\* sources; tools/conc.py compares it with what the gate build of the real code records (binding of this table)
GateTable == {[gate |-> gt, locks |-> sct.locks] : sct \in {x \in Sections : x.gates # {}}, gt \in UNION {x.gates : x \in Sections}}
GateRows == {r \in GateTable : \E x \in Sections : r.gate \in x.gates /\ r.locks = x.locks}
EmitGates == PrintT(<<"GATES", ToJson(GateRows)>>)
EmitOverlaps == PrintT(<<"OVERLAPS", ToJson([kinds |-> Overlaps, sections |-> Cardinality(Sections), racy |-> RacyPairs])>>)
=============================================================================
