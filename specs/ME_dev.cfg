CONSTANTS
 Ids = {"a", "b", "c"}
 R = 2
 D = 2
 NInit = 2
 MaxTimers = 4
 MaxDepth = 8
 Ticks = {1, 2}
 UseUnknown = FALSE
INIT Init
NEXT Next
VIEW View
CHECK_DEADLOCK FALSE
INVARIANTS TypeOK GhostAgrees
PROPERTIES Fam13 Fam14
