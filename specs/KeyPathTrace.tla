---------------------------- MODULE KeyPathTrace ----------------------------
(* C11: every logged (value, locator, observed result) is compared with the reference Keys of KeyPath.tla. *)
EXTENDS KeyPath

Tr == ndJsonDeserialize("trace.ndjson")

VARIABLES l, bad, cnt
ClauseIds == {"C11_a", "C11_b", "C11_c"}

\* violations are collected up to a cap, but the first violation of every clause is always kept: a flood of violations of one
\* clause (another property's) must not hide the only violation of another
KeepBad(b, v) == Len(b) < 300 \/ \E c \in v : \A i \in DOMAIN b : c \notin b[i].ids

TInit == l = 1 /\ bad = <<>> /\ cnt = [c \in ClauseIds |-> 0] /\ done = FALSE

Step ==
  /\ l <= Len(Tr)
  /\ LET ev == Tr[l] IN
     \E r \in {Keys(ev.top, ev.n, ev.path)} :
       LET a == r.ok /\ ~ev.panic
           b == ~r.ok /\ ~ev.panic
           v == (IF a /\ ~(ev.rok /\ ev.rkeys = r.keys) THEN {"C11_a"} ELSE {})
                \cup (IF b /\ ev.rok THEN {"C11_b"} ELSE {})
                \cup (IF ev.panic THEN {"C11_c"} ELSE {})
           tags == IF ev.panic /\ PanicsInReflect(ev.top, ev.n, ev.path) THEN {"reflect-nil-embedded"} ELSE {}
       IN /\ bad' = IF v # {} /\ KeepBad(bad, v) THEN Append(bad, [l |-> l, sid |-> "vec", i |-> ev.id, ids |-> v, tags |-> tags]) ELSE bad
          /\ cnt' = [c \in ClauseIds |-> cnt[c] + (IF (c = "C11_a" /\ a) \/ (c = "C11_b" /\ b) \/ c = "C11_c" THEN 1 ELSE 0)]
  /\ l' = l + 1
  /\ UNCHANGED done

Finish ==
  /\ l = Len(Tr) + 1
  /\ PrintT(<<"VERDICT", ToJson([n |-> Len(Tr), bad |-> bad, cnt |-> cnt])>>)
  /\ l' = l + 1
  /\ UNCHANGED <<bad, cnt, done>>

TNext == Step \/ Finish
=============================================================================
