CONSTANTS
 MaxDepth = 7
 MaxMsg = 3
 UseFail = TRUE
 UseX = TRUE
INIT Init
NEXT Next
VIEW View
CHECK_DEADLOCK FALSE
INVARIANTS TypeOK NoLostWakeup
PROPERTIES PAll
