---------------------------- MODULE StreamGhost ----------------------------
(***************************************************************************)
(* Property layer of the interceptors (C12).  Events are recorded after the *)
(* harness has let every started call run until it returned or parked:      *)
(*  [op \in reset|start|streamer|cancel|unary, th, kind, msg, ok, fail,      *)
(*   res, rets (calls that returned: [th, kind, msg, res]),                  *)
(*   blk (calls still blocked: [th, kind, where \in mutex|cond|gate|other]), *)
(*   inv (stream-creation attempts so far), cmsg (first message visible to   *)
(*   each attempt started in this event), cval (caller's context values and  *)
(*   method seen by every attempt), dlog (calls that reached the underlying  *)
(*   stream in this event: [kind, msg]), unary \in SAME|DIFF]                *)
(***************************************************************************)
EXTENDS Integers, Sequences, FiniteSets, TLC

Threads == {"S", "R", "X"}
Others == {"header", "trailer", "closesend", "context"}

SGInit == [created |-> FALSE, fails |-> 0, cancelled |-> FALSE, pendInv |-> 0, inv |-> 0,
           act |-> [t \in Threads |-> [kind |-> "", msg |-> 0, fails0 |-> 0, created0 |-> FALSE, fail |-> FALSE]]]

RetThreads(ev) == {ev.rets[i].th : i \in DOMAIN ev.rets}

SGNext(g, ev) ==
  IF ev.op = "reset" THEN SGInit
  ELSE IF ev.op = "unary" \/ ev.res = "SKIPPED" THEN g
  ELSE
  LET g1 == IF ev.op = "start"
            THEN [g EXCEPT !.act[ev.th] = [kind |-> ev.kind, msg |-> ev.msg, fails0 |-> g.fails, created0 |-> g.created, fail |-> ev.fail]]
            ELSE IF ev.op = "streamer"
            THEN [g EXCEPT !.pendInv = IF @ > 0 THEN @ - 1 ELSE 0,
                           !.created = @ \/ ev.ok,
                           !.fails = IF ev.ok THEN @ ELSE @ + 1]
            ELSE IF ev.op = "cancel" THEN [g EXCEPT !.cancelled = TRUE]
            ELSE g
      g2 == [g1 EXCEPT !.pendInv = @ + (ev.inv - g.inv), !.inv = ev.inv]
  IN [g2 EXCEPT !.act = [t \in Threads |-> IF t \in RetThreads(ev) THEN SGInit.act[t] ELSE g2.act[t]]]

----------------------------------------------------------------------------
Cl(id, ante, cons) == [id |-> id, on |-> ante, ok |-> (ante => cons)]

Rets(ev) == {ev.rets[i] : i \in DOMAIN ev.rets}
Blks(ev) == {ev.blk[i] : i \in DOMAIN ev.blk}
DCount(ev, k) == Cardinality({i \in DOMAIN ev.dlog : ev.dlog[i].kind = k})
DSends(ev) == {ev.dlog[i].msg : i \in {j \in DOMAIN ev.dlog : ev.dlog[j].kind = "send"}}
RCount(ev, k, S) == Cardinality({i \in DOMAIN ev.rets : ev.rets[i].kind = k /\ ev.rets[i].res \in S})

\* the call of thread t as known after the event's own start was recorded
ActOf(g, ev, t) == IF ev.op = "start" /\ ev.th = t
                   THEN [kind |-> ev.kind, msg |-> ev.msg, fails0 |-> g.fails, created0 |-> g.created, fail |-> ev.fail]
                   ELSE g.act[t]

\* known findings (descriptors; the driver matches them against known_findings.json)
PanicKnown(g, ev, g2, r) == r.res = "PANIC" /\ r.kind \in Others /\ ~g2.created
BlkKnown(g, ev, g2, b) == b.kind = "recv" /\ b.where = "cond" /\ g2.cancelled /\ ~g2.created /\ g2.fails = ActOf(g, ev, b.th).fails0

BadBlk(g, ev, g2, b) ==
  LET a == ActOf(g, ev, b.th) IN
  CASE b.where = "cond" -> ~(b.kind = "recv" /\ ~g2.created /\ g2.fails = a.fails0 /\ ~g2.cancelled)
    [] b.where = "mutex" -> g2.pendInv = 0
    [] b.where = "gate" -> ~(b.kind = "send" /\ g2.pendInv > 0)
    \* the underlying SendMsg may block (flow control) once the stream exists; a receiver parked inside the wrapper
    \* at the same time is reported by the cond / mutex cases
    [] b.where = "dgate" -> ~(b.kind = "send" /\ g2.created)
    [] OTHER -> TRUE

SClauses(g, ev, g2) ==
  LET live == ev.op \in {"start", "streamer", "cancel"} /\ ev.res # "SKIPPED" IN
  { Cl("C12_a", ev.op = "unary", ev.unary = "SAME"),
    Cl("C12_b1", live /\ ev.inv > g.inv, ev.inv = g.inv + 1 /\ ~g.created /\ g.pendInv = 0 /\ ~(ev.op = "streamer" /\ ev.ok)),
    Cl("C12_b2", live /\ ev.cmsg # <<>>, \A i \in DOMAIN ev.cmsg : ev.cmsg[i] = ActOf(g, ev, "S").msg /\ ActOf(g, ev, "S").kind = "send"),
    Cl("C12_b3", live, ev.cval),
    Cl("C12_c1", live /\ \E r \in Rets(ev) : r.kind = "recv",
                 \A r \in Rets(ev) : r.kind = "recv" =>
                    \/ (r.res = "OK" /\ g2.created /\ ~ActOf(g, ev, r.th).fail)
                    \/ (r.res = "ERRD" /\ g2.created /\ ActOf(g, ev, r.th).fail)
                    \/ (r.res = "ERRC" /\ g2.fails > 0 /\ ~ActOf(g, ev, r.th).created0)
                    \/ (r.res = "CTX" /\ g2.cancelled)
                    \/ r.res = "PANIC"),
    Cl("C12_c2", live /\ Blks(ev) # {}, \A b \in Blks(ev) : ~BadBlk(g, ev, g2, b)),
    Cl("C12_d1", live, /\ DCount(ev, "send") = RCount(ev, "send", {"OK", "ERRD"})
                       /\ DCount(ev, "recv") = RCount(ev, "recv", {"OK", "ERRD"})
                       /\ \A k \in Others : DCount(ev, k) = RCount(ev, k, {"OK"})),
    Cl("C12_d2", live /\ \E r \in Rets(ev) : r.kind = "send" /\ r.res \in {"OK", "ERRD"},
                 \A r \in Rets(ev) : (r.kind = "send" /\ r.res \in {"OK", "ERRD"}) => r.msg \in DSends(ev)),
    Cl("C12_e", live /\ Rets(ev) # {}, \A r \in Rets(ev) : r.res # "PANIC"),
    Cl("C12_f", live /\ \E r \in Rets(ev) : r.kind = "send",
                 \A r \in Rets(ev) : r.kind = "send" =>
                    \/ (r.res = "OK" /\ g2.created /\ ~ActOf(g, ev, r.th).fail)
                    \/ (r.res = "ERRD" /\ g2.created /\ ActOf(g, ev, r.th).fail)
                    \/ (r.res = "ERRC" /\ ev.op = "streamer" /\ ~ev.ok)
                    \/ r.res = "PANIC"),
    Cl("C12_g", live /\ \E r \in Rets(ev) : r.kind \in Others,
                 \A r \in Rets(ev) : r.kind \in Others => r.res \in {"OK", "PANIC"}) }

SClauseIds == {"C12_a", "C12_b1", "C12_b2", "C12_b3", "C12_c1", "C12_c2", "C12_d1", "C12_d2", "C12_e", "C12_f", "C12_g"}

\* tags: a violated clause is tagged when every offending item is of a known kind
STags(g, ev, g2) ==
  (IF (\E r \in Rets(ev) : r.res = "PANIC") /\ \A r \in Rets(ev) : r.res = "PANIC" => PanicKnown(g, ev, g2, r)
   THEN {"panic-before-creation"} ELSE {})
  \cup
  (IF (\E b \in Blks(ev) : BadBlk(g, ev, g2, b)) /\ \A b \in Blks(ev) : BadBlk(g, ev, g2, b) => BlkKnown(g, ev, g2, b)
   THEN {"recv-blocked-after-cancel"} ELSE {})

SExempt(id, g, ev, g2) ==
  \/ (id = "C12_e" /\ "panic-before-creation" \in STags(g, ev, g2))
  \/ (id = "C12_c2" /\ "recv-blocked-after-cancel" \in STags(g, ev, g2))

SExercised(g, ev, g2) == {[id |-> c.id, ok |-> c.ok] : c \in {x \in SClauses(g, ev, g2) : x.on}}
=============================================================================
