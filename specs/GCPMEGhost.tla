---------------------------- MODULE GCPMEGhost ----------------------------
(***************************************************************************)
(* Property layer of GCPMultiEndpoint (C15, C16).  Ghost: the accepted      *)
(* option set (named endpoint lists, default name), which endpoints are up  *)
(* (environment), and for every MultiEndpoint the endpoint its Current()    *)
(* must name according to the MultiEndpoint rules with no recovery timeout  *)
(* and no switching delay:                                                  *)
(*     Exp(c, list, A) = top-priority member of A in list if any,           *)
(*                       else c if still listed, else the first of list.    *)
(* Events are recorded after the system settled (pool connectivity matches  *)
(* the endpoints' up/down state and routes are stable):                      *)
(*  [op \in reset|new|update|down|up|rpc|close, mes (seq of [name, eps]),    *)
(*   def, faildial, e, name, res, srv, dials, conns (every connection ever   *)
(*   handed out: [e, shut]), pools, routes0 (at return), routes (settled),   *)
(*   settled, gor (goroutines above the baseline)]                           *)
(***************************************************************************)
EXTENDS Integers, Sequences, FiniteSets, TLC

SeqSet(s) == {s[i] : i \in DOMAIN s}
Idx(s, x) == CHOOSE i \in DOMAIN s : s[i] = x

Names(mes) == {mes[i].name : i \in DOMAIN mes}
EpsOf(mes, n) == mes[CHOOSE i \in DOMAIN mes : mes[i].name = n].eps
Mentioned(mes) == UNION {SeqSet(mes[i].eps) : i \in DOMAIN mes}

Top(list, A) == LET S == SeqSet(list) \cap A IN CHOOSE e \in S : \A f \in S : Idx(list, e) <= Idx(list, f)
Exp(c, list, A) == IF SeqSet(list) \cap A # {} THEN Top(list, A) ELSE IF c \in SeqSet(list) THEN c ELSE list[1]

\* timed: the MultiEndpoints run with a recovery timeout r and a switching delay d (virtual ticks, given by the reset event).
\* Their Current() then depends on timers (the subject of ME.tla): the ghost does not predict it, it adopts the recorded
\* routes and checks what the statements say whatever the timers do (see the clauses C15_r, C15_t).  quiet = r + d.
GGInit == [alive |-> FALSE, closed |-> FALSE, mes |-> <<>>, def |-> "", up |-> {"a", "b", "c", "d"}, cur |-> <<>>, pools |-> {},
           timed |-> FALSE, quiet |-> 0, sev |-> {}]
\* sev: endpoints whose pool connection was closed by the application (input "sever"); such a pool counts as unavailable until an
\* accepted update drops the endpoint (a later update that names it again dials a fresh connection)
Avail(g) == g.up \ g.sev
\* cur is a sequence of [name, e] sorted by name (like the recorded routes)

CurOf(g, n) == LET S == {i \in DOMAIN g.cur : g.cur[i].name = n} IN IF S = {} THEN "" ELSE g.cur[CHOOSE i \in S : TRUE].e

\* order of sort.Strings over the names in use: "" (a legal MultiEndpoint name), m1, m2, m3
NameBefore(a, b) == a = b \/ a = "" \/ (b # "" /\ ((a = "m1") \/ (a = "m2" /\ b # "m1") \/ (a = "m3" /\ b \notin {"m1", "m2"})))
SortedNames(S) == LET RECURSIVE F(_)
                      F(T) == IF T = {} THEN <<>>
                              ELSE LET x == CHOOSE y \in T : \A z \in T : NameBefore(y, z) IN <<x>> \o F(T \ {x})
                  IN F(S)

\* options are acceptable when the default is configured, no list is empty and no dial fails
NewEps(g, ev) == Mentioned(ev.mes) \ g.pools
ValidOpts(g, ev) ==
  /\ ev.def \in Names(ev.mes)
  /\ \A i \in DOMAIN ev.mes : ev.mes[i].eps # <<>>
  /\ (ev.faildial = 0 \/ ev.faildial > Cardinality(NewEps(g, ev)))

\* expected routes of the accepted options when the available endpoints are A
RoutesFor(g, mes, A) ==
  LET ns == SortedNames(Names(mes)) IN
  [i \in DOMAIN ns |-> [name |-> ns[i], e |-> Exp(CurOf(g, ns[i]), EpsOf(mes, ns[i]), A)]]

Observed(g, ev) == IF g.timed THEN ev.routes ELSE <<>>

GGNext(g, ev) ==
  IF ev.op = "reset" THEN [GGInit EXCEPT !.timed = ev.r > 0 \/ ev.d > 0, !.quiet = ev.r + ev.d]
  ELSE IF ev.res \in {"SKIPPED"} THEN g
  ELSE IF ev.op \in {"new", "update"}
  THEN IF ev.res = "OK" /\ ValidOpts(g, ev)
       THEN LET g1 == [g EXCEPT !.alive = TRUE, !.mes = ev.mes, !.def = ev.def, !.pools = Mentioned(ev.mes), !.sev = @ \cap Mentioned(ev.mes)]
            IN [g1 EXCEPT !.cur = IF g.timed THEN ev.routes ELSE RoutesFor(g, ev.mes, Avail(g1) \cap Mentioned(ev.mes))]
       ELSE IF ev.res = "OK"   \* accepted although invalid (reported by C16_a): the ghost keeps the last valid options
       THEN g
       ELSE IF ev.op = "update"   \* rejected update: pools dialled before the failure stay until the next accepted update or Close
       THEN [g EXCEPT !.pools = @ \cup {ev.dials[i].e : i \in {j \in DOMAIN ev.dials : ev.dials[j].ok}}]
       ELSE g
  ELSE IF ev.op = "down" THEN LET g1 == [g EXCEPT !.up = @ \ {ev.e}] IN
       IF g.alive /\ ~g.closed THEN [g1 EXCEPT !.cur = IF g.timed THEN ev.routes ELSE RoutesFor(g, g.mes, Avail(g1) \cap g.pools)] ELSE g1
  ELSE IF ev.op = "up" THEN LET g1 == [g EXCEPT !.up = @ \cup {ev.e}] IN
       IF g.alive /\ ~g.closed THEN [g1 EXCEPT !.cur = IF g.timed THEN ev.routes ELSE RoutesFor(g, g.mes, Avail(g1) \cap g.pools)] ELSE g1
  ELSE IF ev.op = "sever" THEN
       IF g.alive /\ ~g.closed /\ ev.e \in g.pools
       THEN LET g1 == [g EXCEPT !.sev = @ \cup {ev.e}] IN [g1 EXCEPT !.cur = IF g.timed THEN ev.routes ELSE RoutesFor(g, g.mes, Avail(g1) \cap g.pools)]
       ELSE g
  ELSE IF ev.op = "tick" THEN (IF g.timed /\ g.alive /\ ~g.closed THEN [g EXCEPT !.cur = ev.routes] ELSE g)
  ELSE IF ev.op = "close" THEN [g EXCEPT !.closed = TRUE]
  ELSE g

----------------------------------------------------------------------------
Cl(id, ante, cons) == [id |-> id, on |-> ante, ok |-> (ante => cons)]

OpenConns(ev, e) == {i \in DOMAIN ev.conns : ev.conns[i].e = e /\ ~ev.conns[i].shut}
OkDials(ev) == {i \in DOMAIN ev.dials : ev.dials[i].ok}

\* routes allowed right when a successful new/update returns: kept pools count for sure, new pools may or may not be ready yet -
\* and every MultiEndpoint is told separately, so each may already reflect a different subset of the new pools
Routes0Allowed(g, ev) ==
  LET kept == Avail(g) \cap g.pools \cap Mentioned(ev.mes)
      all == Avail(g) \cap Mentioned(ev.mes)
      ns == SortedNames(Names(ev.mes))
  IN /\ Len(ev.routes0) = Len(ns)
     /\ \A i \in DOMAIN ns :
           /\ ev.routes0[i].name = ns[i]
           /\ \E S \in {T \in SUBSET all : kept \subseteq T} : ev.routes0[i].e = Exp(CurOf(g, ns[i]), EpsOf(ev.mes, ns[i]), S)

GClauses(g, ev, g2) ==
  LET live == g.alive /\ ~g.closed
      isCfg == ev.op \in {"new", "update"} /\ ev.res \notin {"SKIPPED"}
      valid == ValidOpts(g, ev)
      \* an rpc event with name "" is a call whose context names no MultiEndpoint (not one that names the MultiEndpoint "")
      target == IF ev.name # "" /\ ev.name \in Names(g.mes) THEN ev.name ELSE g.def
      expE == CurOf(g, target)
  IN
  { Cl("C15_a", ev.op = "rpc" /\ live /\ ev.res = "OK", ev.srv = expE),
    Cl("C15_a2", ev.op = "rpc" /\ live /\ ev.res \notin {"SKIPPED"} /\ expE \in Avail(g) /\ ev.settled, ev.res = "OK" /\ ev.srv = expE),
    Cl("C15_b", isCfg /\ valid /\ ev.res = "OK",
                /\ SeqSet(ev.pools) = Mentioned(ev.mes)
                /\ \A e \in {"a", "b", "c", "d"} : Cardinality(OpenConns(ev, e)) = (IF e \in Mentioned(ev.mes) \ g.sev THEN 1 ELSE 0)
                /\ {ev.dials[i].e : i \in DOMAIN ev.dials} = NewEps(g, ev)
                /\ Len(ev.dials) = Cardinality(NewEps(g, ev))
                /\ \A i \in DOMAIN ev.dials : ev.dials[i].ok),
    Cl("C15_c", isCfg /\ valid /\ ev.res = "OK" /\ ~g.timed, Routes0Allowed(g, ev)),
    Cl("C15_d", (isCfg /\ valid /\ ev.res = "OK") \/ (ev.op \in {"down", "up", "sever"} /\ live /\ ev.res = "OK"), ev.settled /\ ev.routes = g2.cur),
    \* every MultiEndpoint's current endpoint is one of its configured endpoints (so that a pool exists for it)
    Cl("C15_r", g2.alive /\ ~g2.closed /\ ev.op \notin {"reset", "close"} /\ ev.res \notin {"PANIC", "HANG", "SKIPPED"},
                /\ {ev.routes[i].name : i \in DOMAIN ev.routes} = Names(g2.mes)
                /\ \A i \in DOMAIN ev.routes : ev.routes[i].name \in Names(g2.mes) => ev.routes[i].e \in SeqSet(EpsOf(g2.mes, ev.routes[i].name))),
    \* "routing follows within bounded time": once the clock has advanced by more than recovery timeout + switching delay with no
    \* other input, every MultiEndpoint is on its top available endpoint (or stays where it is when none is available)
    Cl("C15_t", ev.op = "tick" /\ live /\ ev.n > g.quiet /\ ev.res = "OK",
                ev.settled /\ ev.routes = RoutesFor(g, g.mes, Avail(g) \cap g.pools)),
    Cl("C16_a", isCfg /\ ~valid, ev.res = "ERR"),
    Cl("C16_b", ev.op = "update" /\ live /\ ev.res = "ERR", ev.routes = g.cur /\ ev.routes0 = g.cur /\ g.pools \subseteq SeqSet(ev.pools)),
    Cl("C16_c", ev.op \notin {"reset"}, ev.res \notin {"PANIC", "HANG"}),
    Cl("C16_d", ev.op = "close" /\ ev.res = "OK", (\A i \in DOMAIN ev.conns : ev.conns[i].shut) /\ ev.gor <= 0),
    Cl("C16_e", ev.op = "new" /\ ev.res = "ERR", (\A i \in DOMAIN ev.conns : ev.conns[i].shut) /\ ev.gor <= 0),
    Cl("C16_f", isCfg /\ valid, ev.res = "OK"),
    \* "no accepted or rejected update can make a later RPC ... use a closed pool": a call routed to an endpoint that is up succeeds,
    \* and every pool the object holds after an accepted update has an open connection
    Cl("C16_g", ev.op = "rpc" /\ live /\ ev.res \notin {"SKIPPED"} /\ expE \in Avail(g) /\ ev.settled, ev.res = "OK"),
    Cl("C16_h", isCfg /\ valid /\ ev.res = "OK", \A e \in SeqSet(ev.pools) \ g2.sev : Cardinality(OpenConns(ev, e)) >= 1) }

GClauseIds == {"C15_a", "C15_a2", "C15_b", "C15_c", "C15_d", "C15_r", "C15_t", "C16_a", "C16_b", "C16_c", "C16_d", "C16_e", "C16_f", "C16_g", "C16_h"}
GExercised(g, ev, g2) == {[id |-> c.id, ok |-> c.ok] : c \in {x \in GClauses(g, ev, g2) : x.on}}
=============================================================================
