INIT EmitAll
NEXT NextNone
CHECK_DEADLOCK FALSE
