------------------------------ MODULE MEGhost ------------------------------
(***************************************************************************)
(* Property layer of multiendpoint.MultiEndpoint (C13, C14).  The ghost is  *)
(* what a user can reconstruct from the history of calls: the accepted      *)
(* endpoint list, the availability status of every endpoint as defined by   *)
(* the documentation (available / recovering inside a window of r ticks /   *)
(* unavailable), virtual time, and the values Current() returned.           *)
(*                                                                         *)
(* Event: [op \in new|set|avail|tick|fire|cur, eps, e, b, n, k, res, cur,   *)
(*         due (timer callbacks started but not yet run), live (timers      *)
(*         neither run nor stopped), now (ticks)]                           *)
(***************************************************************************)
EXTENDS Integers, Sequences, FiniteSets, TLC

SeqSet(s) == {s[i] : i \in DOMAIN s}
Idx(s, x) == CHOOSE i \in DOMAIN s : s[i] = x

NewStatus(r, now) == IF r > 0 THEN [s |-> "R", until |-> now + r] ELSE [s |-> "U", until |-> 0]

MEGhostInit == [list |-> <<>>, r |-> 0, d |-> 0, st |-> <<>>, cur |-> "", now |-> 0, ok |-> FALSE]

\* st is kept as a sequence parallel to list
StOf(g, e) == g.st[Idx(g.list, e)]
In(g, e) == e \in SeqSet(g.list)
Eff(g, e) == LET x == StOf(g, e) IN IF x.s = "R" /\ g.now >= x.until THEN "U" ELSE x.s
Prio(g, e) == Idx(g.list, e)
Avail(g) == {e \in SeqSet(g.list) : StOf(g, e).s = "A"}
TopA(g) == CHOOSE e \in Avail(g) : \A f \in Avail(g) : Prio(g, e) <= Prio(g, f)

\* what Current() must be after an operation when nothing is delayed (statement of C13, third sentence)
Expected(g, g2) ==
  LET c0 == g.cur
      inl == In(g2, c0)
  IN IF inl /\ Eff(g2, c0) = "R" /\ ~\E a \in Avail(g2) : Prio(g2, a) < Prio(g2, c0) THEN c0
     ELSE IF Avail(g2) # {} THEN TopA(g2)
     ELSE IF inl THEN c0 ELSE g2.list[1]

MEGhostNext0(g, ev) ==
  LET g0 == [g EXCEPT !.now = ev.now] IN
  IF ev.op = "new"
  THEN IF ev.res # "OK" THEN [g0 EXCEPT !.ok = FALSE]
       ELSE [list |-> ev.eps, r |-> ev.cfg.r, d |-> ev.cfg.d,
             st |-> [i \in DOMAIN ev.eps |-> NewStatus(ev.cfg.r, ev.now)], cur |-> ev.cur, now |-> ev.now, ok |-> TRUE]
  ELSE IF ~g.ok \/ ev.res \in {"SKIPPED", "PANIC", "HANG"} THEN g0
  ELSE IF ev.op = "set"
  THEN IF ev.res # "OK" THEN [g0 EXCEPT !.cur = ev.cur]
       ELSE [g0 EXCEPT !.list = ev.eps,
                       !.st = [i \in DOMAIN ev.eps |-> IF In(g, ev.eps[i]) THEN StOf(g, ev.eps[i]) ELSE NewStatus(g.r, ev.now)],
                       !.cur = ev.cur]
  ELSE IF ev.op = "avail"
  THEN IF ~In(g, ev.e) THEN [g0 EXCEPT !.cur = ev.cur]
       ELSE LET i == Idx(g.list, ev.e)
                old == g.st[i]
                new == IF ev.b THEN [s |-> "A", until |-> 0]
                       ELSE IF old.s # "A" THEN old
                       ELSE IF g.r > 0 THEN [s |-> "R", until |-> ev.now + g.r] ELSE [s |-> "U", until |-> 0]
            IN [g0 EXCEPT !.st[i] = new, !.cur = ev.cur]
  ELSE [g0 EXCEPT !.cur = ev.cur]

\* An operation of a concurrent section whose own effect on Current() could not be observed is recorded with cur = "?"
\* (tools/conc_me.py, linearizations): the ghost then assumes what the statement requires of it (no switching delay, no
\* timer callback pending: Current() is exactly Expected), so that the operations after it are judged against a
\* behaviour the statement allows; no clause is evaluated on such an event.
MEGhostNext(g, ev) ==
  LET g1 == MEGhostNext0(g, ev) IN
  IF ev.cur = "?" /\ g1.ok /\ g.ok /\ g1.list # <<>> THEN [g1 EXCEPT !.cur = Expected(g, g1)] ELSE g1

----------------------------------------------------------------------------
Cl(id, ante, cons) == [id |-> id, on |-> ante, ok |-> (ante => cons)]

Live(ev) == ev.res \notin {"SKIPPED", "PANIC", "HANG"} /\ ev.cur # "?"

MEClauses(g, ev, g2) ==
  LET c0 == g.cur
      c1 == ev.cur
      act == g.ok /\ g2.ok /\ Live(ev) /\ ev.op # "new"
      quiet == ev.due = 0
  IN
  { Cl("C13_a", g2.ok /\ Live(ev), c1 \in SeqSet(g2.list)),
    Cl("C13_b", g2.ok /\ Live(ev) /\ quiet /\ c1 \in SeqSet(g2.list) /\ Avail(g2) # {}, Eff(g2, c1) # "U"),
    Cl("C13_c", act /\ Avail(g2) = {}, c1 = (IF In(g2, c0) THEN c0 ELSE g2.list[1])),
    Cl("C13_d", act /\ g.d = 0 /\ quiet, c1 = Expected(g, g2)),
    Cl("C13_e", g.ok /\ ev.op = "set" /\ ev.eps = <<>> /\ Live(ev), ev.res = "ERR" /\ c1 = c0),
    Cl("C13_f", ev.op = "new" /\ ev.eps = <<>>, ev.res = "ERR"),
    Cl("C13_g", ev.op = "new" /\ ev.res = "OK", c1 = ev.eps[1]),
    Cl("C14_a", act /\ quiet /\ In(g2, c0) /\ Eff(g2, c0) = "R" /\ ~\E a \in Avail(g2) : Prio(g2, a) < Prio(g2, c0), c1 = c0),
    Cl("C14_b", act /\ g.d > 0 /\ ev.op \in {"set", "avail"} /\ In(g2, c0) /\ Eff(g2, c0) \in {"A", "R"}, c1 = c0),
    Cl("C14_c", act /\ In(g2, c0) /\ StOf(g2, c0).s = "A" /\ c1 # c0 /\ c1 \in SeqSet(g2.list), Prio(g2, c1) < Prio(g2, c0)),
    Cl("C14_d", g2.ok /\ Live(ev) /\ ev.live = 0 /\ Avail(g2) # {}, c1 = TopA(g2)),
    Cl("C14_e", act /\ ev.op \in {"tick", "cur"}, c1 = c0),
    Cl("C05_me", TRUE, ev.res \notin {"PANIC", "HANG"}) }

MEClauseIds == {"C13_a", "C13_b", "C13_c", "C13_d", "C13_e", "C13_f", "C13_g", "C14_a", "C14_b", "C14_c", "C14_d", "C14_e", "C05_me"}
MEExercised(g, ev, g2) == {[id |-> c.id, ok |-> c.ok] : c \in {x \in MEClauses(g, ev, g2) : x.on}}
=============================================================================
