CONSTANTS
 MaxPre = 2
INIT Init
NEXT Next
INVARIANTS Emit Exclusion
CHECK_DEADLOCK FALSE
