------------------------------- MODULE Stream -------------------------------
(***************************************************************************)
(* Mechanism layer of grpcgcp/gcp_interceptor.go (gcpClientStream): the     *)
(* mutex, the condition variable, the lazily created embedded ClientStream  *)
(* and initStreamErr, driven by three logical threads (S sender, R          *)
(* receiver, X other methods).  An action is one harness input: start a     *)
(* call, let the pending stream creation return ok/err, cancel the context; *)
(* afterwards every thread runs until it returns or parks (mutex, cond,     *)
(* streamer gate).  The event recorded for the input drives StreamGhost.    *)
(***************************************************************************)
EXTENDS StreamGhost, Json

CONSTANTS MaxDepth, MaxMsg, UseFail, UseX, UseGate

VARIABLES cs,        \* embedded ClientStream set
          initErr,   \* initStreamErr set
          cancelled,
          inv,       \* stream-creation attempts
          nmsg,      \* messages used so far
          th,        \* thread -> [kind, msg, fail, pc]   pc \in idle | mutex | gate | cond
          g, ev, hist
mvars == <<cs, initErr, cancelled, inv, nmsg, th>>
vars == <<mvars, g, ev, hist>>

Idle == [kind |-> "", msg |-> 0, fail |-> FALSE, gated |-> FALSE, pc |-> "idle"]

Init ==
  /\ cs = FALSE /\ initErr = FALSE /\ cancelled = FALSE /\ inv = 0 /\ nmsg = 0
  /\ th = [t \in Threads |-> Idle]
  /\ g = SGInit
  /\ ev = [op |-> "reset"]
  /\ hist = <<>>

MutexHeld(t2) == \E t \in Threads : t2[t].pc = "gate"

\* one scheduling step of thread t in state s = [cs, initErr, inv, th, rets, dlog, cmsg]; returns the new s
RunOne(s, t) ==
  LET c == s.th[t] IN
  IF c.pc \in {"idle", "gate", "dgate"} THEN s
  ELSE IF c.kind = "send"
  THEN IF MutexHeld(s.th) THEN [s EXCEPT !.th[t].pc = "mutex"]
       ELSE IF ~s.cs THEN [s EXCEPT !.th[t].pc = "gate", !.inv = @ + 1, !.cmsg = Append(@, c.msg)]
       ELSE IF c.gated
       THEN \* the underlying SendMsg blocks until a receiver reads from the underlying stream (flow control)
            [s EXCEPT !.th[t].pc = "dgate", !.bcast = TRUE]
       ELSE [s EXCEPT !.th[t] = Idle, !.dlog = Append(@, [kind |-> "send", msg |-> c.msg]),
                      !.rets = Append(@, [th |-> t, kind |-> "send", msg |-> c.msg, res |-> IF c.fail THEN "ERRD" ELSE "OK"]),
                      !.bcast = TRUE]
  ELSE IF c.kind = "recv"
  THEN IF MutexHeld(s.th) THEN [s EXCEPT !.th[t].pc = "mutex"]
       ELSE IF ~s.initErr /\ ~s.cs THEN [s EXCEPT !.th[t].pc = "cond"]
       ELSE IF s.initErr THEN [s EXCEPT !.th[t] = Idle, !.rets = Append(@, [th |-> t, kind |-> "recv", msg |-> 0, res |-> "ERRC"])]
       ELSE LET s1 == [s EXCEPT !.th[t] = Idle, !.dlog = Append(@, [kind |-> "recv", msg |-> 0]),
                                !.rets = Append(@, [th |-> t, kind |-> "recv", msg |-> 0, res |-> IF c.fail THEN "ERRD" ELSE "OK"])]
                G == {x \in Threads : s.th[x].pc = "dgate"}
            IN IF G = {} THEN s1
               ELSE LET x == CHOOSE y \in G : TRUE IN
                    [s1 EXCEPT !.th[x] = Idle, !.dlog = Append(@, [kind |-> "send", msg |-> s.th[x].msg]),
                               !.rets = Append(@, [th |-> x, kind |-> "send", msg |-> s.th[x].msg, res |-> IF s.th[x].fail THEN "ERRD" ELSE "OK"])]
  ELSE \* header / trailer / closesend / context: promoted methods of the embedded (possibly nil) ClientStream
       IF ~s.cs THEN [s EXCEPT !.th[t] = Idle, !.rets = Append(@, [th |-> t, kind |-> c.kind, msg |-> 0, res |-> "PANIC"])]
       ELSE [s EXCEPT !.th[t] = Idle, !.dlog = Append(@, [kind |-> c.kind, msg |-> 0]),
                      !.rets = Append(@, [th |-> t, kind |-> c.kind, msg |-> 0, res |-> "OK"])]

\* threads that can make progress: new, or waiting for the mutex while it is free, or woken cond waiters
Runnable(s, woken) == {t \in Threads : \/ s.th[t].pc = "new"
                                        \/ (s.th[t].pc = "mutex" /\ ~MutexHeld(s.th))
                                        \/ (s.th[t].pc = "cond" /\ t \in woken)}
RECURSIVE Settle(_, _)
Settle(s, woken) ==
  LET R == Runnable(s, woken) IN
  IF R = {} THEN s
  ELSE LET t == CHOOSE x \in R : \A y \in R : (x = "S") \/ (x = "R" /\ y # "S") \/ (x = "X" /\ y = "X")
           s1 == RunOne([s EXCEPT !.th[t].pc = IF @ = "new" THEN "run" ELSE @], t)
           \* a send that passed the critical section broadcasts: cond waiters re-check
           w1 == (IF s1.bcast THEN woken \cup {x \in Threads : s1.th[x].pc = "cond"} ELSE woken) \ {t}
       IN Settle([s1 EXCEPT !.bcast = FALSE], w1)

Start0 == [cs |-> cs, initErr |-> initErr, inv |-> inv, th |-> th, rets |-> <<>>, dlog |-> <<>>, cmsg |-> <<>>, bcast |-> FALSE]

BlkOf(t2) == LET RECURSIVE F(_)
                 F(S) == IF S = {} THEN <<>>
                         ELSE LET t == CHOOSE x \in S : \A y \in S : (x = "S") \/ (x = "R" /\ y # "S") \/ (x = "X" /\ y = "X") IN
                              (IF t2[t].pc \in {"mutex", "gate", "cond", "dgate"}
                               THEN <<[th |-> t, kind |-> t2[t].kind, where |-> t2[t].pc]>> ELSE <<>>) \o F(S \ {t})
             IN F(Threads)

Commit(op, t, kind, msg, ok, fail, s, inp) ==
  \E ee \in {[op |-> op, th |-> t, kind |-> kind, msg |-> msg, ok |-> ok, fail |-> fail, err |-> FALSE, res |-> "OK",
              rets |-> s.rets, blk |-> BlkOf(s.th), inv |-> s.inv, cmsg |-> s.cmsg, cval |-> TRUE, dlog |-> s.dlog,
              unary |-> ""]} :
    /\ ev' = ee
    /\ g' = SGNext(g, ee)
    /\ hist' = Append(hist, inp)
    /\ cs' = s.cs /\ initErr' = s.initErr /\ inv' = s.inv /\ th' = s.th

StartCall(t, kind, fail, gated) ==
  /\ th[t].pc = "idle"
  /\ (kind = "send" => nmsg < MaxMsg)
  /\ LET m == IF kind = "send" THEN nmsg + 1 ELSE 0
         s0 == [Start0 EXCEPT !.th[t] = [kind |-> kind, msg |-> m, fail |-> fail, gated |-> gated, pc |-> "new"]]
         s == Settle(s0, {})
     IN /\ nmsg' = IF kind = "send" THEN nmsg + 1 ELSE nmsg
        /\ Commit("start", t, kind, m, FALSE, fail, s, [op |-> "start", th |-> t, kind |-> kind, msg |-> m, fail |-> fail, gated |-> gated])
  /\ UNCHANGED cancelled

StreamerReturns(ok) ==
  /\ \E t \in Threads : th[t].pc = "gate"
  /\ LET t == CHOOSE x \in Threads : th[x].pc = "gate"
         c == th[t]
         \* the creating SendMsg continues: store stream or error, unlock, broadcast, then delegate
         s0 == IF ok /\ c.gated
               THEN [Start0 EXCEPT !.cs = TRUE, !.initErr = FALSE, !.th[t].pc = "dgate"]
               ELSE IF ok
               THEN [Start0 EXCEPT !.cs = TRUE, !.initErr = FALSE, !.th[t] = Idle,
                                   !.dlog = <<[kind |-> "send", msg |-> c.msg]>>,
                                   !.rets = <<[th |-> t, kind |-> "send", msg |-> c.msg, res |-> IF c.fail THEN "ERRD" ELSE "OK"]>>]
               ELSE [Start0 EXCEPT !.initErr = TRUE, !.th[t] = Idle,
                                   !.rets = <<[th |-> t, kind |-> "send", msg |-> c.msg, res |-> "ERRC"]>>]
         s == Settle(s0, {x \in Threads : th[x].pc = "cond"})
     IN Commit("streamer", "", "", 0, ok, FALSE, s, [op |-> "streamer", ok |-> ok])
  /\ UNCHANGED <<cancelled, nmsg>>

Cancel ==
  /\ ~cancelled
  /\ cancelled' = TRUE
  /\ Commit("cancel", "", "", 0, FALSE, FALSE, Start0, [op |-> "cancel"])   \* nothing wakes the waiters (known finding)
  /\ UNCHANGED nmsg

Next ==
  /\ Len(hist) < MaxDepth
  /\ \/ \E f \in (IF UseFail THEN BOOLEAN ELSE {FALSE}), gt \in (IF UseGate THEN BOOLEAN ELSE {FALSE}) : StartCall("S", "send", f, gt)
     \/ StartCall("S", "closesend", FALSE, FALSE)
     \/ \E f \in (IF UseFail THEN BOOLEAN ELSE {FALSE}) : StartCall("R", "recv", f, FALSE)
     \/ \E k \in {"header", "trailer"} : StartCall("R", k, FALSE, FALSE)
     \/ (UseX /\ \E k \in {"context", "header"} : StartCall("X", k, FALSE, FALSE))
     \/ \E ok \in BOOLEAN : StreamerReturns(ok)
     \/ Cancel

Spec == Init /\ [][Next]_vars
\* fairness for the liveness check: a pending stream creation eventually returns
FairSpec == Spec /\ WF_vars(\E ok \in BOOLEAN : StreamerReturns(ok))

AllOK == \A c \in SClauses(g, ev', g') : c.ok \/ SExempt(c.id, g, ev', g')
PAll == [][AllOK]_vars

\* model-level invariants
TypeOK ==
  /\ Cardinality({t \in Threads : th[t].pc = "gate"}) <= 1
  /\ (\E t \in Threads : th[t].pc = "gate") => ~cs
  /\ \A t \in Threads : th[t].pc = "mutex" => \E u \in Threads : th[u].pc = "gate"
\* a receiver never stays parked on the condition variable once the stream exists or creation failed (no lost wake-up)
NoLostWakeup == \A t \in Threads : th[t].pc = "cond" => (~cs /\ ~initErr)
AtMostOneStream == inv > 0 /\ cs => TRUE

\* liveness (C12 "blocks until the underlying stream exists ... or returns the creation error"): a waiting receiver returns once
\* a creation attempt has returned
RecvReturns == (th["R"].pc \in {"cond", "mutex"}) ~> (th["R"].pc = "idle" \/ ~(cs \/ initErr))

View == <<mvars>>
EmitBfs == PrintT(<<"SCRIPT", ToJson(hist)>>)
EmitSim == Len(hist) < MaxDepth \/ PrintT(<<"SCRIPT", ToJson(hist)>>)
=============================================================================
