------------------------------ MODULE KeyPath ------------------------------
(***************************************************************************)
(* C11: affinity-key extraction.  Reference semantics of following a dotted *)
(* locator through a message, over a catalogue of Go value shapes.           *)
(*                                                                         *)
(* A message value (Go type KNode in the harness) is a record               *)
(*   [name, num, list, sub, subs, vals, any, pp, nest, m, emb]              *)
(* with field kinds                                                          *)
(*   name : string          num : int            list : []string            *)
(*   sub  : *KNode (Nil or node)                 subs : []*KNode             *)
(*   vals : []KNode         any : interface{} (Nil, [z, t|->"str", v],       *)
(*                                 [z, t|->"node", v], [z, t|->"ptr", v],    *)
(*                                 [z, t|->"alt", v]: a value of another     *)
(*                                 struct type, KAlt, that has the fields    *)
(*                                 list, num, name, sub only, in this order) *)
(*   pp   : **KNode (Nil, [z, p |-> Nil or node]) nest : [][]string          *)
(*   m    : map[string]string                    emb  : promoted field of an *)
(*          embedded *KEmb (Nil = embedded pointer is nil, or [z, s])        *)
(* Every possibly-nil value is a record with a flag z (TRUE = nil): TLC      *)
(* refuses to compare a string with a record.                                *)
(* Locator segments name a field by its lower-case Go name (the first letter *)
(* is upper-cased by the code); anything else names no field.               *)
(*                                                                         *)
(* Keys(v, path) = [ok, keys]: the reference result.  TLC enumerates the     *)
(* vector space (Vectors), the harness runs getAffinityKeysFromMessage on    *)
(* each vector, and KeyPathTrace recomputes Keys on every logged vector.     *)
(***************************************************************************)
EXTENDS Integers, Sequences, FiniteSets, TLC, Json

Nil == [z |-> TRUE]
Err == [ok |-> FALSE, keys |-> <<>>]
Ok(ks) == [ok |-> TRUE, keys |-> ks]

FieldNames == {"name", "num", "list", "sub", "subs", "vals", "any", "pp", "nest", "m", "emb"}

\* Title-casing of a segment: a segment names field f iff it is f written with a lower- or upper-case first letter
Canon(seg) == CASE seg \in {"name", "Name"} -> "name" [] seg \in {"num", "Num"} -> "num" [] seg \in {"list", "List"} -> "list"
                [] seg \in {"sub", "Sub"} -> "sub" [] seg \in {"subs", "Subs"} -> "subs" [] seg \in {"vals", "Vals"} -> "vals"
                [] seg \in {"any", "Any"} -> "any" [] seg \in {"pp", "Pp"} -> "pp" [] seg \in {"nest", "Nest"} -> "nest"
                [] seg \in {"m", "M"} -> "m" [] seg \in {"emb", "Emb"} -> "emb" [] OTHER -> "?"

\* a "cell" is what reflection sees at one position: [k, v]
\*   k \in str | int | node (struct value) | ptr (pointer to struct, v = "nil" or node) | pptr | iface | slice (v = seq of cells) | map | invalid
StrC(s) == [k |-> "str", v |-> s]
NodeC(n) == [k |-> "node", v |-> n]
PtrC(n) == [k |-> "ptr", v |-> n]
IfaceC(a) == [k |-> "iface", v |-> a]

\* the cell of field f of node n
FieldCell(n, f) ==
  CASE f = "name" -> StrC(n.name)
    [] f = "num" -> [k |-> "int", v |-> 0]
    [] f = "list" -> [k |-> "slice", v |-> [i \in DOMAIN n.list |-> StrC(n.list[i])]]
    [] f = "sub" -> PtrC(n.sub)
    [] f = "subs" -> [k |-> "slice", v |-> [i \in DOMAIN n.subs |-> PtrC(n.subs[i])]]
    [] f = "vals" -> [k |-> "slice", v |-> [i \in DOMAIN n.vals |-> NodeC(n.vals[i])]]
    [] f = "any" -> IfaceC(n.any)
    [] f = "pp" -> [k |-> "pptr", v |-> n.pp]
    [] f = "nest" -> [k |-> "slice", v |-> [i \in DOMAIN n.nest |-> [k |-> "slice", v |-> [j \in DOMAIN n.nest[i] |-> StrC(n.nest[i][j])]]]]
    [] f = "m" -> [k |-> "map", v |-> 0]
    [] f = "emb" -> IF n.emb.z THEN [k |-> "invalid", v |-> 0] ELSE StrC(n.emb.s)
    [] OTHER -> [k |-> "invalid", v |-> 0]

\* one dereference of a pointer or an interface (what the code does at every level)
Deref(c) ==
  CASE c.k = "ptr" -> IF c.v.z THEN [k |-> "invalid", v |-> 0] ELSE NodeC(c.v)
    [] c.k = "pptr" -> IF c.v.z THEN [k |-> "invalid", v |-> 0] ELSE PtrC(c.v.p)
    [] c.k = "iface" -> IF c.v.z THEN [k |-> "invalid", v |-> 0]
                        ELSE IF c.v.t = "str" THEN StrC(c.v.sv)
                        ELSE IF c.v.t = "node" THEN NodeC(c.v.v)
                        ELSE IF c.v.t = "alt" THEN [k |-> "altnode", v |-> c.v.v] ELSE PtrC(c.v.v)
    [] OTHER -> c

\* struct values: KNode ("node") and KAlt ("altnode", only four of the fields)
IsStruct(c) == c.k \in {"node", "altnode"}
AltFields == {"name", "num", "list", "sub"}
HasField(c, f) == f # "?" /\ (c.k = "node" \/ f \in AltFields)

RECURSIVE KeysAt(_, _, _)
KeysAt(c0, path, i) ==
  LET c == Deref(c0) IN
  IF i > Len(path) THEN (IF c.k = "str" THEN Ok(<<c.v>>) ELSE Err)
  ELSE IF ~IsStruct(c) THEN Err
  ELSE LET f == Canon(path[i])
           fc == IF ~HasField(c, f) THEN [k |-> "invalid", v |-> 0] ELSE FieldCell(c.v, f)
       IN IF fc.k # "slice" THEN KeysAt(fc, path, i + 1)
          ELSE LET RECURSIVE Fan(_, _)
                   Fan(j, acc) == IF j > Len(fc.v) THEN Ok(acc)
                                  ELSE LET r == KeysAt(fc.v[j], path, i + 1) IN
                                       IF ~r.ok THEN Err ELSE Fan(j + 1, acc \o r.keys)
               IN Fan(1, <<>>)

\* top level: the message is passed as an interface holding a *KNode (top = node), a nil *KNode ("nilptr"),
\* an untyped nil ("nil"), a KNode value ("val"), or a string ("str")
TopCell(top, n) == CASE top = "ptr" -> PtrC(n) [] top = "nilptr" -> PtrC(Nil) [] top = "nil" -> [k |-> "invalid", v |-> 0]
                     [] top = "val" -> NodeC(n) [] top = "str" -> StrC("s") [] OTHER -> [k |-> "invalid", v |-> 0]

Split(path) == path     \* locators are handled as sequences of segments; the harness joins them with "."
Keys(top, n, path) == IF path = <<>> THEN KeysAt(TopCell(top, n), <<"">>, 1) ELSE KeysAt(TopCell(top, n), path, 1)

\* the promoted field of a nil embedded pointer makes reflection itself panic (known finding KF-P20)
PanicsInReflect(top, n, path) ==
  LET RECURSIVE Hit(_, _)
      Hit(c0, i) == LET c == Deref(c0) IN
                    IF i > Len(path) \/ ~IsStruct(c) THEN FALSE
                    ELSE LET f == Canon(path[i]) IN
                         IF f = "emb" /\ c.k = "node" /\ c.v.emb.z THEN TRUE
                         ELSE IF ~HasField(c, f) THEN FALSE
                         ELSE LET fc == FieldCell(c.v, f) IN
                              IF fc.k # "slice" THEN Hit(fc, i + 1)
                              ELSE \E j \in DOMAIN fc.v : (\A j2 \in 1..(j-1) : KeysAt(fc.v[j2], path, i + 1).ok) /\ Hit(fc.v[j], i + 1)
  IN path # <<>> /\ Hit(TopCell(top, n), 1)

----------------------------------------------------------------------------
\* the vector space

E(x) == [z |-> FALSE, s |-> x]
Leaf(name, list, any, emb) == [z |-> FALSE, name |-> name, num |-> 0, list |-> list, sub |-> Nil, subs |-> <<>>, vals |-> <<>>, any |-> any,
                               pp |-> Nil, nest |-> <<>>, m |-> 0, emb |-> emb]
AStr == [z |-> FALSE, t |-> "str", sv |-> "s"]
ANode(n) == [z |-> FALSE, t |-> "node", v |-> n]
APtr(n) == [z |-> FALSE, t |-> "ptr", v |-> n]
AAlt(n) == [z |-> FALSE, t |-> "alt", v |-> n]
PP(n) == [z |-> FALSE, p |-> n]
L1 == Leaf("a", <<"x">>, Nil, E("e"))
L2 == Leaf("b", <<>>, AStr, Nil)
L3 == Leaf("c", <<"y", "z">>, Nil, E("e"))

Leaves == {L1, L2, L3}
Subs == {<<>>, <<L1>>, <<L1, Nil>>, <<Nil, L1>>, <<L2, L3>>, <<L3, L2, L1>>, <<Nil>>}
Vals == {<<>>, <<L1>>, <<L3, L2>>, <<L2, L3>>, <<L1, L2, L3>>}
Anys == {Nil, AStr, ANode(L1), APtr(L3), APtr(Nil), AAlt(L1), AAlt(L3)}
PPs == {Nil, PP(Nil), PP(L1)}
Nests == {<<>>, <<<<"p">>, <<>>>>}

Mid(sub, subs, vals, any, pp, nest, emb) ==
  [z |-> FALSE, name |-> "n", num |-> 0, list |-> <<"k1", "k2">>, sub |-> sub, subs |-> subs, vals |-> vals, any |-> any, pp |-> pp, nest |-> nest,
   m |-> 0, emb |-> emb]

\* not the full product: each group varies a few dimensions together
MidsA == {Mid(s, ss, <<>>, Nil, Nil, <<>>, e) : s \in Leaves \cup {Nil}, ss \in Subs, e \in {Nil, E("e")}}
MidsB == {Mid(Nil, <<>>, vs, a, p, ns, E("e")) : vs \in Vals, a \in Anys, p \in PPs, ns \in Nests}
MidsC == {Mid(L1, <<L1>>, vs, a, Nil, <<>>, Nil) : vs \in Vals, a \in Anys}
Mids == MidsA \cup MidsB \cup MidsC

\* a few three-level values
Deep == {Mid(Mid(L1, <<L2>>, <<>>, Nil, Nil, <<>>, E("e")), <<Mid(L3, <<L1, L3>>, <<L2>>, Nil, Nil, <<>>, E("e")), L1>>, <<>>,
             APtr(Mid(L2, <<>>, <<>>, Nil, Nil, <<>>, Nil)), PP(L1), <<>>, E("e")),
         Mid(Nil, <<Mid(Nil, <<>>, <<L1>>, Nil, Nil, <<>>, E("e"))>>, <<Mid(L1, <<Nil>>, <<>>, Nil, Nil, <<>>, E("e"))>>, Nil, Nil, <<>>, E("e"))}

Segs == {"name", "Name", "NAME", "num", "list", "sub", "subs", "vals", "any", "pp", "nest", "m", "emb", "", "nosuch"}
Paths1 == {<<s>> : s \in Segs}
Paths2 == {<<a, b>> : a \in {"sub", "subs", "vals", "any", "pp", "Sub", "list", "name", "", "nest", "emb"}, b \in {"name", "list", "sub", "emb", "", "num", "nosuch", "subs", "any", "pp", "vals"}}
Paths3 == {<<a, b, c>> : a \in {"sub", "subs", "vals", "any"}, b \in {"sub", "subs", "vals"}, c \in {"name", "list", "emb", "x", "any", ""}}
Paths == Paths1 \cup Paths2 \cup Paths3 \cup {<<>>}

Tops == {"ptr", "val"}

\* TLC prints one line per vector: evaluated as an ASSUME-like constant expression through an init predicate
VARIABLE done
EmitAll ==
  /\ \A n \in Mids \cup Deep \cup Leaves : \A p \in Paths : \A t \in Tops :
        PrintT(<<"VEC", ToJson([top |-> t, n |-> n, path |-> p])>>)
  /\ \A p \in Paths : \A t \in {"nilptr", "nil", "str"} : PrintT(<<"VEC", ToJson([top |-> t, n |-> L1, path |-> p])>>)
  /\ done = TRUE
NextNone == UNCHANGED done

Count == Cardinality(Mids \cup Deep \cup Leaves) * Cardinality(Paths) * 2 + 3 * Cardinality(Paths)
=============================================================================
