CONSTANTS
 Picks = {1}
 PickerOf = 0
 MaxSize = 1
 InitSize = 1
 CheckUnderLock = TRUE
 NPickers = 1
SPECIFICATION Spec
INVARIANTS LocksetOK EmitGates
CHECK_DEADLOCK FALSE
