---------------------------- MODULE ConfigTrace ----------------------------
(* C17: every logged configuration vector (text rendered from the record, parsed by the real ParseConfig) is compared
   with the reference; GCPMultiEndpoint copy semantics are recorded as booleans. *)
EXTENDS Config

Tr == ndJsonDeserialize("trace.ndjson")
VARIABLES l, bad, cnt
ClauseIds == {"C17_p", "C17_r", "C17_x", "C17_g", "C17_np"}

\* violations are collected up to a cap, but the first violation of every clause is always kept: a flood of violations of one
\* clause (another property's) must not hide the only violation of another
KeepBad(b, v) == Len(b) < 300 \/ \E c \in v : \A i \in DOMAIN b : c \notin b[i].ids

TInit == l = 1 /\ bad = <<>> /\ cnt = [c \in ClauseIds |-> 0] /\ done = FALSE

Checks(ev) ==
  IF ev.kind = "cfg"
  THEN IF Accepted(ev)
       THEN {[id |-> "C17_p", ok |-> ev.pok /\ ev.ppool = NormPool(ev.pool) /\ ev.pmethod = NormMethods(ev.method)],
             [id |-> "C17_r", ok |-> ev.pok => ev.roundtrip]}
       ELSE {[id |-> "C17_x", ok |-> ~ev.pok]}
  ELSE IF ev.kind = "gmecfg" THEN {[id |-> "C17_g", ok |-> ev.equal /\ ev.copyindep /\ ev.callerindep]}
  ELSE {}

Step ==
  /\ l <= Len(Tr)
  /\ LET ev == Tr[l] IN
     \E cs \in {Checks(ev) \cup {[id |-> "C17_np", ok |-> ~ev.panic]}} :
       LET v == {c.id : c \in {x \in cs : ~x.ok}} IN
       /\ bad' = IF v # {} /\ KeepBad(bad, v) THEN Append(bad, [l |-> l, sid |-> ev.kind, i |-> ev.id, ids |-> v, tags |-> {}]) ELSE bad
       /\ cnt' = [c \in ClauseIds |-> cnt[c] + (IF c \in {x.id : x \in cs} THEN 1 ELSE 0)]
  /\ l' = l + 1
  /\ UNCHANGED done

Finish ==
  /\ l = Len(Tr) + 1
  /\ PrintT(<<"VERDICT", ToJson([n |-> Len(Tr), bad |-> bad, cnt |-> cnt])>>)
  /\ l' = l + 1
  /\ UNCHANGED <<bad, cnt, done>>

TNext == Step \/ Finish
=============================================================================
