------------------------------- MODULE Pool -------------------------------
(***************************************************************************)
(* Mechanism layer of the channel pool: a code-shaped, sequential model of  *)
(* grpcgcp/gcp_balancer.go and gcp_picker.go (one action per API call, the   *)
(* same maps, counters and snapshots as the Go code).  Every action builds   *)
(* the event record the harness would record for that call, and the ghost    *)
(* of PoolGhost is advanced with it, so TLC checks                            *)
(*      mechanism  =>  every clause of the property layer                     *)
(* and the behaviours of this module are the input scripts replayed against   *)
(* the real code.                                                             *)
(*                                                                           *)
(* Go name                         here                                      *)
(*   gb.scStates                   scst   (conn -> state | "none")           *)
(*   gb.scRefs                     scref  (conn -> slot | 0)                 *)
(*   gb.refreshingScRefs           refr   (replacement conn -> slot | 0)     *)
(*   gb.scRefList / subConnRef     slots  (sequence of records)              *)
(*   gb.affinityMap / fallbackMap  affm / fbm (key -> conn | 0)              *)
(*   gb.csEvltr                    cnt    [R, C, T]                          *)
(*   gb.state                      gst                                       *)
(*   gb.picker + published pickers pubs   (sequence; last = gb.picker)       *)
(*   gb.addrs                      addrs  (address-list version)             *)
(*   gb.rrRefId                    rrid                                      *)
(***************************************************************************)
EXTENDS PoolGhost, Json

CONSTANTS CfgMin, CfgMax, CfgWm, CfgFb, CfgUc, CfgUms, CfgRr,   \* raw configuration values (0 = unset)
          Keys,          \* affinity keys used by calls
          AVs,           \* address-list versions offered by the resolver (0 = empty list)
          States,        \* connectivity states the environment may report
          Methods,       \* method classes used by picks
          Outs,          \* completion outcomes
          Dls,           \* deadlines (ticks from the pick; 0 = none)
          Advs,          \* clock advances
          CfgKinds,      \* kinds of balancer config on resolver updates
          MaxConn, MaxCalls, MaxPub, MaxDepth,
          StalePick,     \* how many superseded pickers may still be used (0 = only the latest)
          UseFail,       \* connection factory may be switched to failing
          UseUnknown,    \* state reports for a connection the balancer never saw
          UseBadReq,     \* malformed requests (empty key list, nil message, no interceptor context)
          Pre            \* index of the deterministic preamble executed first (0 = none): exploration starts from an established pool

VARIABLES nconn, scst, scref, refr, slots, affm, fbm, cnt, gst, pubs, calls, addrs, cfgd, ecfg, meth,
          now, failing, failIn, rrid, pend,
          g, ev, hist

mvars == <<nconn, scst, scref, refr, slots, affm, fbm, cnt, gst, pubs, calls, addrs, cfgd, ecfg, meth, now, failing, failIn, rrid, pend>>
vars == <<mvars, g, ev, hist>>

RawCfg == [min |-> CfgMin, max |-> CfgMax, wm |-> CfgWm, fb |-> CfgFb, uc |-> CfgUc, ums |-> CfgUms, rr |-> CfgRr, nopool |-> FALSE]
OtherRaw == [RawCfg EXCEPT !.min = @ + 1, !.max = @ + 2, !.wm = @ + 1, !.fb = ~@, !.rr = ~@]

Conns == 1..MaxConn
NoSlot == [sc |-> 0, streams |-> 0, aff |-> 0, lastResp |-> 0, de |-> 0, refreshing |-> FALSE, k |-> 0]
ErrNosc == [kind |-> "gcp", refs |-> {}]

MethodSeq == <<"/v/Bind=BIND:list", "/v/Bound2=BOUND:list", "/v/Bound=BOUND:list", "/v/Unbind=UNBIND:list">>
WBOf(sl, c, sr, rf) ==
  [ok |-> TRUE,
   streams |-> [i \in 1..Len(sl) |-> sl[i].streams],
   aff |-> [i \in 1..Len(sl) |-> sl[i].aff],
   nr |-> c.R, nc |-> c.C, nt |-> c.T,
   pool |-> Cardinality({x \in Conns : sr[x] # 0}),
   refr |-> Cardinality({x \in Conns : rf[x] # 0}),
   cfgset |-> cfgd, ecfg |-> ecfg, meths |-> IF cfgd /\ meth THEN MethodSeq ELSE <<>>]

BaseEv(op) ==
  [op |-> op, i |-> Len(hist) + 1, t |-> now + 1, av |-> 0, cfgk |-> "", c |-> 0, s |-> "", pk |-> 0, lat |-> FALSE,
   m |-> "", noctx |-> FALSE, keys |-> <<>>, shape |-> "", dl |-> 0, n |-> 0, out |-> "", rkeys |-> <<>>, d |-> 0,
   fail |-> FALSE, of |-> 0, res |-> "OK", rc |-> 0, rn |-> 0, rt |-> 0, cc |-> <<>>, probe |-> "OK",
   wb |-> WBOf(slots, cnt, scref, refr)]

CC(k, c, av, ok, s, pk) == [k |-> k, c |-> c, av |-> av, ok |-> ok, s |-> s, pk |-> pk]
CNew(c, av) == CC("new", c, av, TRUE, "", 0)
CNewFail(av) == CC("new", 0, av, FALSE, "", 0)
CUpd(c, av) == CC("upd", c, av, FALSE, "", 0)
CConn(c) == CC("conn", c, 0, FALSE, "", 0)
CRm(c) == CC("rm", c, 0, FALSE, "", 0)
CSt(s, pk) == CC("st", 0, 0, FALSE, s, pk)

Init ==
  /\ nconn = 0
  /\ scst = [c \in Conns |-> "none"]
  /\ scref = [c \in Conns |-> 0]
  /\ refr = [c \in Conns |-> 0]
  /\ slots = <<>>
  /\ affm = [k \in Keys |-> 0]
  /\ fbm = [k \in Keys |-> 0]
  /\ cnt = [R |-> 0, C |-> 0, T |-> 0]
  /\ gst = "IDLE"
  /\ pubs = <<>>
  /\ calls = <<>>
  /\ addrs = 0
  /\ cfgd = FALSE
  /\ ecfg = EffCfg(RawCfg)
  /\ meth = TRUE
  /\ now = 0
  /\ failing = FALSE
  /\ failIn = 0
  /\ rrid = -1
  /\ pend = <<>>
  /\ g = GhostInit(RawCfg)
  /\ ev = [op |-> "reset"]
  /\ hist = <<>>

----------------------------------------------------------------------------
\* helpers over the mechanism state

PoolSize(sr) == Cardinality({c \in Conns : sr[c] # 0})
SetToSeq(S) == LET RECURSIVE F(_)
                   F(T) == IF T = {} THEN <<>> ELSE LET x == CHOOSE y \in T : \A z \in T : y <= z IN <<x>> \o F(T \ {x})
               IN F(S)
Detecting == ecfg.uc > 0 /\ ecfg.ums > 0
CmdOf(m) == IF ~meth THEN "NONE"
            ELSE IF m = "BIND" THEN "BIND" ELSE IF m \in {"BOUND", "BOUND2"} THEN "BOUND"
            ELSE IF m = "UNBIND" THEN "UNBIND" ELSE "NONE"

\* creation of k pool connections (enforceMinSize / addSubConn): returns the new pieces
AddConns(k, av) ==
  LET ids == [j \in 1..k |-> nconn + j] IN
  [nconn |-> nconn + k,
   scst |-> [c \in Conns |-> IF c > nconn /\ c <= nconn + k THEN "IDLE" ELSE scst[c]],
   scref |-> [c \in Conns |-> IF c > nconn /\ c <= nconn + k THEN Len(slots) + (c - nconn) ELSE scref[c]],
   slots |-> slots \o [j \in 1..k |-> [NoSlot EXCEPT !.sc = nconn + j, !.lastResp = now + 1]],
   cc |-> LET RECURSIVE F(_)
              F(j) == IF j > k THEN <<>> ELSE <<CNew(nconn + j, av), CConn(nconn + j)>> \o F(j + 1)
          IN F(1)]

Commit(e, input) ==
  \E ee \in {e} :          \* bound once (TLC re-evaluates LET definitions at every use)
    /\ ev' = ee
    /\ g' = GhostNext(g, ee)
    /\ hist' = Append(hist, input)

----------------------------------------------------------------------------
\* UpdateClientConnState

Resolve(av, cfgk) ==
  /\ now' = now + 1
  /\ addrs' = av
  /\ LET inp == [op |-> "resolve", av |-> av, cfgk |-> cfgk]
         e0 == [BaseEv("resolve") EXCEPT !.av = av, !.cfgk = cfgk]
     IN
     IF ~cfgd /\ cfgk = "bad"
     THEN /\ Commit([e0 EXCEPT !.res = "ERR"], inp)
          /\ UNCHANGED <<nconn, scst, scref, refr, slots, affm, fbm, cnt, gst, pubs, calls, cfgd, ecfg, meth, failing, failIn, rrid, pend>>
     ELSE
     LET ec == IF cfgd THEN ecfg
               ELSE IF cfgk = "none" THEN DefaultCfg ELSE IF cfgk = "other" THEN EffCfg(OtherRaw) ELSE EffCfg(RawCfg)
         \* how many connections the factory will still produce (the resolver's list must not be empty)
         allowed0 == IF av = 0 THEN 0 ELSE IF failing THEN failIn ELSE 1000
         psize == PoolSize(scref)
         \* enforceMinSize runs at initialisation (step 1) and again when the pool is (still) empty (step 2); it stops at the first failure
         run1 == ~cfgd
         need1 == IF run1 /\ psize < ec.min THEN ec.min - psize ELSE 0
         make1 == IF need1 < allowed0 THEN need1 ELSE allowed0
         fail1 == IF make1 < need1 THEN <<CNewFail(av)>> ELSE <<>>
         allowed1 == allowed0 - make1
         run2 == psize + make1 = 0
         need2 == IF run2 THEN ec.min ELSE 0
         make2 == IF need2 < allowed1 THEN need2 ELSE allowed1
         fail2 == IF make2 < need2 THEN <<CNewFail(av)>> ELSE <<>>
         makes == make1 + make2
         a == AddConns(makes, av)
         \* then every pool connection and every replacement in flight gets the new addresses
         updcc == LET P == SetToSeq({c \in Conns : a.scref[c] # 0})
                      Q == SetToSeq({c \in Conns : refr[c] # 0})
                      RECURSIVE U(_, _)
                      U(sq, j) == IF j > Len(sq) THEN <<>> ELSE <<CUpd(sq[j], av), CConn(sq[j])>> \o U(sq, j + 1)
                  IN U(P, 1) \o U(Q, 1)
     IN /\ nconn + makes <= MaxConn
        /\ nconn' = a.nconn /\ scst' = a.scst /\ scref' = a.scref /\ slots' = a.slots
        /\ cfgd' = TRUE /\ ecfg' = ec /\ meth' = IF cfgd THEN meth ELSE cfgk # "none"
        /\ failIn' = IF failing THEN failIn - makes ELSE failIn
        /\ Commit([e0 EXCEPT !.cc = a.cc \o fail1 \o fail2 \o updcc,
                              !.wb = [WBOf(a.slots, cnt, a.scref, refr) EXCEPT !.cfgset = TRUE, !.ecfg = ec,
                                        !.meths = IF (IF cfgd THEN meth ELSE cfgk # "none") THEN MethodSeq ELSE <<>>]], inp)
        /\ UNCHANGED <<refr, affm, fbm, cnt, gst, pubs, calls, failing, rrid, pend>>

ResolverError ==
  /\ now' = now + 1
  /\ Commit(BaseEv("rerr"), [op |-> "rerr"])
  /\ UNCHANGED <<nconn, scst, scref, refr, slots, affm, fbm, cnt, gst, pubs, calls, addrs, cfgd, ecfg, meth, failing, failIn, rrid, pend>>

----------------------------------------------------------------------------
\* UpdateSubConnState

Eval(c2) == IF c2.R > 0 THEN "READY" ELSE IF c2.C > 0 THEN "CONNECTING" ELSE "TF"
Adj(c2, s, d) == IF s = "READY" THEN [c2 EXCEPT !.R = @ + d]
                 ELSE IF s = "CONNECTING" THEN [c2 EXCEPT !.C = @ + d]
                 ELSE IF s = "TF" THEN [c2 EXCEPT !.T = @ + d] ELSE c2

\* blocked round-robin picks whose slot became READY (or whose context ended) complete internally; when several complete
\* in the same step their goroutines race for the call numbers: `ord' is the order in which they finished
WakeSet(pd, sl, st, tnow) ==
  {j \in DOMAIN pd : ~pd[j].done /\ (st[sl[pd[j].slot].sc] = "READY" \/ (pd[j].dl > 0 /\ pd[j].dl <= tnow) \/ pd[j].cancelled)}
Perms(S) == {f \in [1..Cardinality(S) -> S] : \A i, j \in 1..Cardinality(S) : i # j => f[i] # f[j]}
WakePend(pd, sl, st, cl, tnow, ord) ==
  LET RECURSIVE F(_, _, _, _)
      F(k, pd2, sl2, cl2) ==
        IF k > Len(ord) THEN [pend |-> pd2, slots |-> sl2, calls |-> cl2]
        ELSE LET j == ord[k]
                 p == pd[j]
             IN F(k + 1, [pd2 EXCEPT ![j] = [p EXCEPT !.done = TRUE, !.rt = tnow, !.rn = Len(cl2) + 1, !.rc = sl2[p.slot].sc]],
                    [sl2 EXCEPT ![p.slot].streams = @ + 1],
                    Append(cl2, [slot |-> p.slot, cmd |-> "BIND", key |-> 0, t0 |-> tnow, dl |-> p.dl, ctx |-> ~p.noctx, open |-> TRUE]))
  IN F(1, pd, sl, cl)

Report(c, s) ==
  /\ c \in 0..nconn
  /\ now' = now + 1
  /\ LET inp == [op |-> "state", c |-> c, s |-> s]
         e0 == [BaseEv("state") EXCEPT !.c = c, !.s = s]
         \* nothing the balancer reacts to; waiting picks still observe the time (context deadlines)
         unchangedAll == \E ord \in Perms(WakeSet(pend, slots, scst, now + 1)) :
                           LET w0 == WakePend(pend, slots, scst, calls, now + 1, ord) IN
                           /\ slots' = w0.slots /\ calls' = w0.calls /\ pend' = w0.pend
                           /\ Commit([e0 EXCEPT !.wb = WBOf(w0.slots, cnt, scref, refr)], inp)
                           /\ UNCHANGED <<nconn, scst, scref, refr, affm, fbm, cnt, gst, pubs, addrs, cfgd, ecfg, meth, failing, failIn, rrid>>
     IN
     IF c = 0 THEN unchangedAll
     ELSE IF refr[c] # 0 /\ s # "READY" THEN unchangedAll
     ELSE
     LET isRepl == refr[c] # 0
         sid == refr[c]
         old == IF isRepl THEN slots[sid].sc ELSE 0
         scst1 == IF isRepl THEN [scst EXCEPT ![c] = IF scst[old] = "none" THEN "IDLE" ELSE scst[old], ![old] = "none"] ELSE scst
         scref1 == IF isRepl THEN [scref EXCEPT ![old] = 0, ![c] = sid] ELSE scref
         refr1 == IF isRepl THEN [refr EXCEPT ![c] = 0] ELSE refr
         slots1 == IF isRepl THEN [slots EXCEPT ![sid] = [@ EXCEPT !.sc = c, !.de = 0, !.lastResp = now + 1, !.refreshing = FALSE,
                                                                  !.k = IF @ < 6 THEN @ + 1 ELSE 6]] ELSE slots
         affm1 == IF isRepl THEN [k \in Keys |-> IF affm[k] = old THEN c ELSE affm[k]] ELSE affm
         fbm0 == IF isRepl THEN [k \in Keys |-> IF fbm[k] = old THEN c ELSE fbm[k]] ELSE fbm
         rmcc == IF isRepl THEN <<CRm(old)>> ELSE <<>>
         oldS == scst1[c]
         known == oldS # "none"
     IN
     IF ~known THEN unchangedAll
     ELSE
     LET scst2 == [scst1 EXCEPT ![c] = IF s = "SHUTDOWN" THEN "none" ELSE s]
         scref2 == IF s = "SHUTDOWN" THEN [scref1 EXCEPT ![c] = 0] ELSE scref1
         idlecc == IF s = "IDLE" THEN <<CConn(c)>> ELSE <<>>
         fbm1 == [k \in Keys |->
                    IF oldS = "READY" /\ s # "READY" /\ fbm0[k] = c THEN 0
                    ELSE IF oldS # "READY" /\ s = "READY" /\ fbm0[k] # 0 /\ affm1[k] = c THEN 0 ELSE fbm0[k]]
         cnt1 == Adj(Adj(cnt, oldS, -1), s, 1)
         gst1 == Eval(cnt1)
         doPub == (s = "READY") # (oldS = "READY") \/ (gst1 = "TF") # (gst = "TF")
         newPicker == IF gst1 = "TF" THEN [kind |-> "tf", refs |-> {}]
                      ELSE [kind |-> "gcp", refs |-> {scref2[x] : x \in {y \in Conns : scst2[y] = "READY"}}]
         pubs1 == IF doPub THEN Append(pubs, newPicker) ELSE pubs
         pubcc == IF doPub THEN <<CSt(gst1, Len(pubs) + 1)>> ELSE <<>>
     IN \E ord \in Perms(WakeSet(pend, slots1, scst2, now + 1)) :
        LET w == WakePend(pend, slots1, scst2, calls, now + 1, ord) IN
        /\ (doPub => Len(pubs) < MaxPub)
        /\ scst' = scst2 /\ scref' = scref2 /\ refr' = refr1 /\ slots' = w.slots /\ affm' = affm1 /\ fbm' = fbm1
        /\ cnt' = cnt1 /\ gst' = gst1 /\ pubs' = pubs1 /\ calls' = w.calls /\ pend' = w.pend
        /\ Commit([e0 EXCEPT !.cc = rmcc \o idlecc \o pubcc, !.wb = WBOf(w.slots, cnt1, scref2, refr1)], inp)
        /\ UNCHANGED <<nconn, addrs, cfgd, ecfg, meth, failing, failIn, rrid>>

----------------------------------------------------------------------------
\* Pick

MinSlots(S) == {i \in S : \A j \in S : slots[i].streams <= slots[j].streams}

\* outcome descriptor of a pick: [res, slot, grow (BOOLEAN), fbk (key or 0), block]
PickOutcomes(p, cmd, key, badreq) ==
  IF p.kind = "tf" THEN {[res |-> "TF", slot |-> 0, grow |-> FALSE, fbk |-> 0]}
  ELSE IF p.refs = {} THEN {[res |-> "NOSC", slot |-> 0, grow |-> FALSE, fbk |-> 0]}
  ELSE IF badreq THEN {[res |-> "ERR", slot |-> 0, grow |-> FALSE, fbk |-> 0]}
  ELSE
  LET least == {IF slots[m].streams < ecfg.wm THEN [res |-> "SC", slot |-> m, grow |-> FALSE, fbk |-> 0]
                ELSE IF PoolSize(scref) < ecfg.max THEN [res |-> "NOSC", slot |-> 0, grow |-> TRUE, fbk |-> 0]
                ELSE [res |-> "SC", slot |-> m, grow |-> FALSE, fbk |-> 0] : m \in MinSlots(p.refs)}
      cur == IF pubs = <<>> THEN ErrNosc ELSE pubs[Len(pubs)]
  IN IF key # 0 /\ affm[key] # 0
     THEN LET sc == affm[key] IN
          IF scst[sc] = "READY" THEN {[res |-> "SC", slot |-> scref[sc], grow |-> FALSE, fbk |-> 0]}
          ELSE IF ~ecfg.fb THEN {[res |-> "NOSC", slot |-> 0, grow |-> FALSE, fbk |-> 0]}
          ELSE IF fbm[key] # 0 THEN {[res |-> "SC", slot |-> scref[fbm[key]], grow |-> FALSE, fbk |-> 0]}
          ELSE IF cur.kind = "gcp" /\ cur.refs # {}
               THEN {[res |-> "SC", slot |-> m, grow |-> FALSE, fbk |-> key] : m \in MinSlots(cur.refs)}
               ELSE {[res |-> "NOSC", slot |-> 0, grow |-> FALSE, fbk |-> 0]}
     ELSE least

Pick(pk, m, keys, shape, noctx, dl) ==
  /\ pk \in 1..Len(pubs) /\ pk >= Len(pubs) - StalePick
  /\ now' = now + 1
  /\ LET p == pubs[pk]
         cmd == CmdOf(m)
         keyed == cmd \in {"BOUND", "UNBIND"} /\ ~noctx
         badreq == keyed /\ (shape # "" \/ keys = <<>>)
         key == IF keyed /\ ~badreq THEN keys[1] ELSE 0
         dlabs == IF dl = 0 THEN 0 ELSE now + 1 + dl
         inp == [op |-> "pick", pk |-> IF pk = Len(pubs) THEN -1 ELSE pk, m |-> m, keys |-> keys, shape |-> shape, noctx |-> noctx, dl |-> dl]
         e0 == [BaseEv("pick") EXCEPT !.pk = pk, !.lat = (pk = Len(pubs)), !.m = m, !.keys = keys, !.shape = shape,
                                      !.noctx = noctx, !.dl = dlabs]
         isRR == cmd = "BIND" /\ ecfg.rr /\ p.kind = "gcp" /\ p.refs # {}
     IN
     IF isRR
     THEN \* getSubConnRoundRobin
          LET id == rrid + 1
              sl == (id % Len(slots)) + 1
              ready == scst[slots[sl].sc] = "READY"
          IN /\ rrid' = id
             /\ IF ready
                THEN /\ Len(calls) < MaxCalls
                     /\ slots' = [slots EXCEPT ![sl].streams = @ + 1]
                     /\ calls' = Append(calls, [slot |-> sl, cmd |-> "BIND", key |-> 0, t0 |-> now + 1, dl |-> dlabs, ctx |-> ~noctx, open |-> TRUE])
                     /\ pend' = pend
                     /\ Commit([e0 EXCEPT !.res = "SC", !.rc = slots[sl].sc, !.rn = Len(calls) + 1, !.rt = now + 1,
                                          !.wb = WBOf(slots', cnt, scref, refr)], inp)
                ELSE /\ Len(calls) + Len(pend) < MaxCalls
                     /\ pend' = Append(pend, [i |-> Len(hist) + 1, slot |-> sl, dl |-> dlabs, noctx |-> noctx, m |-> m, pk |-> pk,
                                              lat |-> (pk = Len(pubs)), cancelled |-> FALSE, done |-> FALSE, rt |-> 0, rn |-> 0, rc |-> 0])
                     /\ Commit([e0 EXCEPT !.res = "BLOCKED"], inp)
                     /\ UNCHANGED <<slots, calls>>
             /\ UNCHANGED <<nconn, scst, scref, refr, affm, fbm, cnt, gst, pubs, addrs, cfgd, ecfg, meth, failing, failIn>>
     ELSE
     \E o \in PickOutcomes(p, cmd, key, badreq) :
       /\ rrid' = rrid /\ pend' = pend
       /\ IF o.res = "SC"
          THEN /\ Len(calls) < MaxCalls
               /\ slots' = [slots EXCEPT ![o.slot].streams = @ + 1]
               /\ calls' = Append(calls, [slot |-> o.slot, cmd |-> cmd, key |-> key, t0 |-> now + 1, dl |-> dlabs, ctx |-> ~noctx, open |-> TRUE])
               /\ fbm' = IF o.fbk # 0 THEN [fbm EXCEPT ![o.fbk] = slots[o.slot].sc] ELSE fbm
               /\ Commit([e0 EXCEPT !.res = "SC", !.rc = slots[o.slot].sc, !.rn = Len(calls) + 1, !.rt = now + 1,
                                    !.wb = WBOf(slots', cnt, scref, refr)], inp)
               /\ UNCHANGED <<nconn, scst, scref, refr, affm, cnt, gst, pubs, addrs, cfgd, ecfg, meth, failing, failIn>>
          ELSE IF o.grow /\ ~\E c \in Conns : scst[c] \in {"CONNECTING", "IDLE"}
          THEN \* newSubConn -> addSubConn
               IF (failing /\ failIn = 0) \/ addrs = 0
               THEN /\ Commit([e0 EXCEPT !.res = "NOSC", !.cc = <<CNewFail(addrs)>>], inp)
                    /\ UNCHANGED <<nconn, scst, scref, refr, slots, affm, fbm, cnt, gst, pubs, calls, addrs, cfgd, ecfg, meth, failing, failIn>>
               ELSE LET a == AddConns(1, addrs) IN
                    /\ nconn < MaxConn
                    /\ nconn' = a.nconn /\ scst' = a.scst /\ scref' = a.scref /\ slots' = a.slots
                    /\ Commit([e0 EXCEPT !.res = "NOSC", !.cc = a.cc, !.wb = WBOf(a.slots, cnt, a.scref, refr)], inp)
                    /\ failIn' = IF failing THEN failIn - 1 ELSE failIn
                    /\ UNCHANGED <<refr, affm, fbm, cnt, gst, pubs, calls, addrs, cfgd, ecfg, meth, failing>>
          ELSE /\ Commit([e0 EXCEPT !.res = o.res], inp)
               /\ UNCHANGED <<nconn, scst, scref, refr, slots, affm, fbm, cnt, gst, pubs, calls, addrs, cfgd, ecfg, meth, failing, failIn>>

\* delivery of the result of a blocked round-robin pick
Await(j, cancel, tk) ==      \* tk = 1: a scripted input (consumes a tick); tk = 0: delivery recorded by the harness on its own
  /\ j \in DOMAIN pend
  /\ now' = now + tk
  /\ LET p0 == pend[j]
         pd1 == IF cancel THEN [pend EXCEPT ![j].cancelled = TRUE] ELSE pend
     IN \E ord \in Perms(WakeSet(pd1, slots, scst, now + tk)) :
        LET w == WakePend(pd1, slots, scst, calls, now + tk, ord)
            p == w.pend[j]
            op == IF cancel THEN "cancel" ELSE "await"
            inp == [op |-> op, of |-> p0.i]
            e0 == [BaseEv(op) EXCEPT !.t = now + tk, !.of = p0.i, !.pk = p0.pk, !.lat = p0.lat, !.m = p0.m, !.noctx = p0.noctx, !.dl = p0.dl]
            rest == LET RECURSIVE F(_)
                        F(x) == IF x > Len(w.pend) THEN <<>> ELSE (IF x = j THEN <<>> ELSE <<w.pend[x]>>) \o F(x + 1)
                    IN F(1)
        IN IF p.done
           THEN /\ pend' = rest /\ slots' = w.slots /\ calls' = w.calls
                /\ Commit([e0 EXCEPT !.res = "SC", !.rc = p.rc, !.rn = p.rn, !.rt = p.rt, !.wb = WBOf(w.slots, cnt, scref, refr)], inp)
           ELSE /\ pend' = w.pend /\ slots' = w.slots /\ calls' = w.calls
                /\ Commit([e0 EXCEPT !.res = "BLOCKED", !.wb = WBOf(w.slots, cnt, scref, refr)], inp)
  /\ UNCHANGED <<nconn, scst, scref, refr, affm, fbm, cnt, gst, pubs, addrs, cfgd, ecfg, meth, failing, failIn, rrid>>

----------------------------------------------------------------------------
\* Done callback

DoneCall(n, outc, rkeys) ==
  /\ n \in DOMAIN calls /\ calls[n].open
  /\ now' = now + 1
  /\ LET cl == calls[n]
         sid == cl.slot
         sl0 == [slots[sid] EXCEPT !.streams = @ - 1]
         isResp == ~(outc = "CDE" /\ cl.dl > 0 /\ cl.dl <= now + 1)
         ignored == ~isResp /\ cl.t0 < sl0.lastResp
         sl1 == IF ~Detecting THEN sl0
                ELSE IF isResp THEN [sl0 EXCEPT !.lastResp = now + 1, !.de = 0, !.k = 0]
                ELSE IF ignored THEN sl0
                ELSE [sl0 EXCEPT !.de = IF @ < 50 THEN @ + 1 ELSE 50]
         want == Detecting /\ ~isResp /\ ~ignored /\ sl1.de >= ecfg.uc /\ sl1.lastResp < (now + 1) - ecfg.ums * Pow2(sl1.k)
         attempt == want /\ ~sl1.refreshing /\ scref[sl1.sc] # 0    \* a slot that left the pool is not refreshed
         made == attempt /\ ~(failing /\ failIn = 0) /\ addrs # 0
         newc == nconn + 1
         sl2 == IF made THEN [sl1 EXCEPT !.refreshing = TRUE] ELSE sl1
         refcc == IF made THEN <<CNew(newc, addrs), CConn(newc)>> ELSE IF attempt THEN <<CNewFail(addrs)>> ELSE <<>>
         ok == outc = "OK"
         cursc == sl2.sc
         \* bindSubConn for every key of the reply, in order
         RECURSIVE B(_, _, _)
         B(i, am, affc) == IF i > Len(rkeys) THEN [affm |-> am, aff |-> affc]
                           ELSE B(i + 1, IF am[rkeys[i]] = 0 THEN [am EXCEPT ![rkeys[i]] = cursc] ELSE am,
                                  IF scref[cursc] # 0 THEN affc + 1 ELSE affc)
         doBind == ok /\ cl.cmd = "BIND" /\ cl.ctx
         b == IF doBind THEN B(1, affm, sl2.aff) ELSE [affm |-> affm, aff |-> sl2.aff]
         doUnbind == ok /\ cl.cmd = "UNBIND" /\ cl.key # 0 /\ affm[cl.key] # 0
         ubsc == IF doUnbind THEN affm[cl.key] ELSE 0
         ubslot == IF ubsc # 0 THEN scref[ubsc] ELSE 0
         affm2 == IF doUnbind THEN [b.affm EXCEPT ![cl.key] = 0] ELSE b.affm
         slots1 == [slots EXCEPT ![sid] = [sl2 EXCEPT !.aff = b.aff]]
         slots2 == IF ubslot # 0 THEN [slots1 EXCEPT ![ubslot].aff = @ - 1] ELSE slots1
         refr1 == IF made THEN [refr EXCEPT ![newc] = sid] ELSE refr
         inp == [op |-> "done", n |-> n, out |-> outc, rkeys |-> rkeys]
     IN /\ (made => nconn < MaxConn)
        /\ slots' = slots2
        /\ calls' = [calls EXCEPT ![n].open = FALSE]
        /\ affm' = affm2
        /\ nconn' = IF made THEN newc ELSE nconn
        /\ failIn' = IF made /\ failing THEN failIn - 1 ELSE failIn
        /\ refr' = refr1
        /\ Commit([BaseEv("done") EXCEPT !.n = n, !.out = outc, !.rkeys = rkeys, !.cc = refcc,
                                         !.wb = WBOf(slots2, cnt, scref, refr1)], inp)
  /\ UNCHANGED <<scst, scref, fbm, cnt, gst, pubs, addrs, cfgd, ecfg, meth, failing, rrid, pend>>

----------------------------------------------------------------------------
\* environment

Advance(d) ==
  /\ now' = now + 1 + d
  /\ \E ord \in Perms(WakeSet(pend, slots, scst, now + 1 + d)) :
     LET w == WakePend(pend, slots, scst, calls, now + 1 + d, ord) IN
     /\ pend' = w.pend /\ slots' = w.slots /\ calls' = w.calls
     /\ Commit([BaseEv("advance") EXCEPT !.d = d, !.t = now + 1 + d, !.wb = WBOf(w.slots, cnt, scref, refr)], [op |-> "advance", d |-> d])
  /\ UNCHANGED <<nconn, scst, scref, refr, affm, fbm, cnt, gst, pubs, addrs, cfgd, ecfg, meth, failing, failIn, rrid>>

Factory(b, k) ==     \* b: failing from now on; k: ... after k more successful creations
  /\ UseFail /\ (failing # b \/ (b /\ failIn # k))
  /\ now' = now + 1
  /\ failing' = b
  /\ failIn' = IF b THEN k ELSE 0
  /\ Commit([BaseEv("factory") EXCEPT !.fail = b], [op |-> "factory", fail |-> b, after |-> k])
  /\ UNCHANGED <<nconn, scst, scref, refr, slots, affm, fbm, cnt, gst, pubs, calls, addrs, cfgd, ecfg, meth, rrid, pend>>

KeySeqs == {<<>>} \cup {<<k>> : k \in Keys} \cup {<<k1, k2>> : k1 \in Keys, k2 \in Keys}      \* a key may be listed twice
ReqShapes == IF UseBadReq THEN {"", "nil", "embnil"} ELSE {""}

\* a blocked pick that has returned is delivered before anything else happens (the harness does the same)
Undelivered == {j \in DOMAIN pend : pend[j].done}

\* deterministic preambles (same record format as the history)
PR(av) == [op |-> "resolve", av |-> av, cfgk |-> "first"]
PS(c, st) == [op |-> "state", c |-> c, s |-> st]
PP(m, ks, dl) == [op |-> "pick", pk |-> -1, m |-> m, keys |-> ks, shape |-> "", noctx |-> FALSE, dl |-> dl]
PD(n, o, rk) == [op |-> "done", n |-> n, out |-> o, rkeys |-> rk]
PA(d) == [op |-> "advance", d |-> d]
Preambles == <<
  <<PR(1), PS(1, "READY")>>,                                                                  \* 1: one READY channel
  <<PR(1), PS(1, "READY"), PS(2, "READY")>>,                                                  \* 2: two READY channels (minSize >= 2)
  <<PR(1), PS(1, "READY"), PP("BIND", <<>>, 0), PD(1, "OK", <<1>>)>>,                         \* 3: one channel, key 1 bound
  <<PR(1), PS(1, "READY"), PS(2, "READY"), PP("BIND", <<>>, 0), PD(1, "OK", <<1>>)>>,         \* 4: two channels, key 1 bound
  <<PR(1), PS(1, "READY"), PS(2, "READY"), PS(3, "READY")>>,                                  \* 5: three READY channels (minSize >= 3)
  <<PR(1), PS(1, "READY"), PP("PLAIN", <<>>, 1), PA(3), PD(1, "CDE", <<>>)>>,                 \* 6: one channel with a refresh in flight (uc = 1)
  <<PR(1), PS(1, "READY"), PS(2, "READY"), PP("BIND", <<>>, 0), PD(1, "OK", <<1>>), PS(1, "TF"), PP("BOUND", <<1>>, 0)>>,  \* 7: key 1 bound, channel 1 down, a keyed call placed (fallback when channel 1 is the home)
  <<PR(1), PS(1, "READY"), PS(2, "READY"), PP("BIND", <<>>, 0), PD(1, "OK", <<1>>), PS(1, "TF"), PP("BOUND", <<1>>, 0),
    PP("UNBIND", <<1>>, 0), PD(3, "OK", <<>>)>>,                                                 \* 8: ... and the key unbound again while channel 1 is still down
  <<PR(1), PS(1, "READY"), PS(2, "READY"), PP("BIND", <<>>, 0), PD(1, "OK", <<1>>), PS(1, "TF"), PP("BOUND", <<1>>, 1),
    PA(3), PD(2, "CDE", <<>>)>>,                                                                 \* 9: like 7, and the channel that served the keyed call (the stand-in when channel 1 is the home) is being refreshed (uc = 1)
  <<PR(1), PS(1, "READY"), PS(2, "READY"), PS(3, "READY"), PP("BIND", <<>>, 0), PD(1, "OK", <<1>>)>>   \* 10: three READY channels, key 1 bound to one of them
>>
PreSeq == IF Pre = 0 THEN <<>> ELSE Preambles[Pre]

DoStep(st) ==
  CASE st.op = "resolve" -> Resolve(st.av, st.cfgk)
    [] st.op = "state" -> Report(st.c, st.s)
    [] st.op = "pick" -> Pick(IF st.pk = -1 THEN Len(pubs) ELSE st.pk, st.m, st.keys, st.shape, st.noctx, st.dl)
    [] st.op = "done" -> DoneCall(st.n, st.out, st.rkeys)
    [] st.op = "advance" -> Advance(st.d)

FreeNext ==
  IF Undelivered # {} THEN \E j \in Undelivered : Await(j, FALSE, 1) ELSE
     \/ \E av \in AVs, ck \in CfgKinds : Resolve(av, ck)
     \/ (cfgd /\ ResolverError)
     \/ \E c \in (IF UseUnknown THEN 0..nconn ELSE 1..nconn), s \in States : Report(c, s)
     \/ \E pk \in 1..Len(pubs), m \in Methods, dl \in Dls :
          \/ (m \in {"BOUND", "BOUND2", "UNBIND"} /\
                \E k \in Keys : Pick(pk, m, <<k>>, "", FALSE, dl))
          \/ (m \in {"BOUND", "UNBIND"} /\ UseBadReq /\
                (Pick(pk, m, <<>>, "", FALSE, dl) \/ Pick(pk, m, <<>>, "nil", FALSE, dl) \/ Pick(pk, m, <<>>, "embnil", FALSE, dl)
                   \/ \E k \in Keys : Pick(pk, m, <<k>>, "", TRUE, dl)))
          \/ (m \notin {"BOUND", "BOUND2", "UNBIND"} /\ Pick(pk, m, <<>>, "", FALSE, dl))
          \/ (m = "BIND" /\ UseBadReq /\ Pick(pk, m, <<>>, "", TRUE, dl))
     \/ \E n \in DOMAIN calls, o \in Outs :
          \/ (calls[n].cmd = "BIND" /\ o = "OK" /\ \E ks \in KeySeqs : DoneCall(n, o, ks))
          \/ (~(calls[n].cmd = "BIND" /\ o = "OK") /\ DoneCall(n, o, <<>>))
     \/ \E d \in Advs : Advance(d)
     \/ \E b \in BOOLEAN : Factory(b, 0)
     \/ Factory(TRUE, 1)
     \/ \E j \in DOMAIN pend, cn \in BOOLEAN : Await(j, cn, 1)

Next ==
  /\ Len(hist) < MaxDepth
  /\ IF Len(hist) < Len(PreSeq) THEN DoStep(PreSeq[Len(hist) + 1]) ELSE FreeNext

Spec == Init /\ [][Next]_vars

----------------------------------------------------------------------------
\* what TLC checks: every clause of the property layer holds on every transition of the mechanism

AllClausesOK == \A c \in Clauses(g, ev', g') : c.ok \/ Exempt(c.id, g')
PClauses == [][AllClausesOK]_vars

\* per-property families (so that a counterexample names the property)
Fam(F(_, _, _)) == \A c \in F(g, ev', g') : c.ok \/ Exempt(c.id, g')
P01 == [][Fam(C01)]_vars
P02 == [][Fam(C02)]_vars
P03 == [][Fam(C03)]_vars
P04 == [][Fam(C04)]_vars
P05 == [][Fam(C05)]_vars
P06 == [][Fam(C06)]_vars
P07 == [][Fam(C07)]_vars
P08 == [][Fam(C08)]_vars
P09 == [][Fam(C09)]_vars
P17 == [][Fam(C17)]_vars
P20 == [][Fam(C20)]_vars

\* mechanism-level invariants (the mechanism's own consistency; not property clauses)
TypeOK ==
  /\ \A c \in Conns : (scref[c] # 0) <=> (scst[c] # "none")
  /\ \A c \in Conns : scref[c] # 0 => slots[scref[c]].sc = c
  /\ \A c \in Conns : refr[c] # 0 => scref[c] = 0 /\ slots[refr[c]].refreshing
  /\ cnt.R >= 0 /\ cnt.C >= 0 /\ cnt.T >= 0
  /\ \A i \in DOMAIN slots : slots[i].streams >= 0

\* the ghost's abstract pool equals the mechanism's pool
GhostAgrees ==
  /\ Len(g.chans) = Len(slots)
  /\ \A h \in DOMAIN slots : g.chans[h].cur = slots[h].sc
  /\ \A h \in DOMAIN slots : g.chans[h].inPool <=> scref[slots[h].sc] # 0
  /\ \A h \in DOMAIN slots : g.pend = <<>> => Streams(g, h) = slots[h].streams

----------------------------------------------------------------------------
\* exploration support

Age(t) == IF now - t > 40 THEN 40 ELSE now - t
View == <<nconn, scst, scref, refr, [i \in DOMAIN slots |-> [slots[i] EXCEPT !.lastResp = Age(@)]], affm, fbm, cnt, gst, pubs,
          [i \in DOMAIN calls |-> [calls[i] EXCEPT !.t0 = IF calls[i].open THEN Age(@) ELSE 0,
                                                   !.dl = IF calls[i].open /\ @ > 0 THEN (IF @ > now THEN @ - now ELSE -1) ELSE 0]],
          addrs, cfgd, ecfg, meth, failing, failIn, rrid, pend,
          g.bound, g.stand, g.agg, g.pubs, g.rrs, g.pend, g.init, g.cfg, g.av,
          [i \in DOMAIN g.det |-> [g.det[i] EXCEPT !.lastResp = Age(@)]],
          [i \in DOMAIN g.conns |-> g.conns[i]], g.chans>>

\* script emission: one line per distinct (view) state in BFS, one per behaviour in simulation
EmitBfs == PrintT(<<"SCRIPT", ToJson(hist)>>)
EmitSim == Len(hist) < MaxDepth \/ PrintT(<<"SCRIPT", ToJson(hist)>>)
=============================================================================
