----------------------------- MODULE PoolGhost -----------------------------
(***************************************************************************)
(* Property layer ("ghost") of the channel pool (gcp_balancer.go,           *)
(* gcp_picker.go).  The ghost state is a function of the API-level history  *)
(* only: what the environment told the balancer (resolver updates,          *)
(* connection state reports), which calls were placed where and how they    *)
(* ended, what the balancer did on its ClientConn (NewSubConn, Connect,     *)
(* UpdateAddresses, RemoveSubConn, UpdateState) and virtual time.           *)
(*                                                                         *)
(* GhostNext(g, ev) folds one event into the ghost.  Clauses(g, ev, g2)     *)
(* is the list of property clauses C01_a ... evaluated on                   *)
(* (pre-state, event, post-state).  The same two operators are used         *)
(*  - by Pool.tla    (mechanism model; events produced by the model) and    *)
(*  - by PoolTrace.tla (events recorded from the real code).                *)
(*                                                                         *)
(* Event schema: see DESIGN.md Appendix A and harness/grpcgcp.              *)
(***************************************************************************)
EXTENDS Integers, Sequences, FiniteSets, TLC

----------------------------------------------------------------------------
\* generic helpers

Max2(a, b) == IF a > b THEN a ELSE b
SeqToSet(s) == {s[i] : i \in DOMAIN s}
Last(s) == s[Len(s)]
Pow2(k) == IF k <= 0 THEN 1 ELSE IF k = 1 THEN 2 ELSE IF k = 2 THEN 4 ELSE IF k = 3 THEN 8
           ELSE IF k = 4 THEN 16 ELSE IF k = 5 THEN 32 ELSE 64

NoKey == 0

\* command of a method class under the harness's fixed method table
Cmd(g, m) == IF ~g.methods THEN "NONE"
             ELSE IF m = "BIND" THEN "BIND"
             ELSE IF m \in {"BOUND", "BOUND2"} THEN "BOUND"
             ELSE IF m = "UNBIND" THEN "UNBIND" ELSE "NONE"

EffCfg(c) == [min |-> IF c.nopool \/ c.min = 0 THEN 1 ELSE c.min,
              max |-> IF c.nopool \/ c.max = 0 THEN 4 ELSE c.max,
              wm  |-> IF c.nopool \/ c.wm = 0 THEN 100 ELSE c.wm,
              fb  |-> ~c.nopool /\ c.fb,
              uc  |-> IF c.nopool THEN 0 ELSE c.uc,
              ums |-> IF c.nopool THEN 0 ELSE c.ums,
              rr  |-> ~c.nopool /\ c.rr]

DefaultCfg == [min |-> 1, max |-> 4, wm |-> 100, fb |-> FALSE, uc |-> 0, ums |-> 0, rr |-> FALSE]

GhostInit(cfg) ==
  [ rawcfg  |-> cfg,
    cfg     |-> EffCfg(cfg),
    init    |-> FALSE,        \* configuration fixed (first accepted resolver update seen)
    methods |-> TRUE,
    conns   |-> <<>>,         \* [av, st, role, ch, rm]  role \in pool | repl | old | gone
    chans   |-> <<>>,         \* [cur, repl, inPool]; index = creation order
    bound   |-> <<>>,         \* sequence of [key, ch] pairs; ch = -1: binding unspecified by the statement
    stand   |-> <<>>,         \* sequence of [key, ch] valid stand-ins
    calls   |-> <<>>,         \* [ch, cmd, key, t0, dl, open, ctx]
    pubs    |-> <<>>,         \* [st, ready]
    det     |-> <<>>,         \* per channel [lastResp, de, k, refreshing]
    agg     |-> "IDLE",
    av      |-> 0,
    now     |-> 0,
    failing |-> FALSE,
    rrs     |-> <<>>,         \* per RR BIND pick in start order: [n, ch]
    pend    |-> <<>>,         \* pending (blocked) picks: [i, q] ; q = index in rrs (0 = not RR)
    resur   |-> FALSE ]       \* a replacement took over a channel whose connection had been reported SHUTDOWN (known finding KF-B7)

----------------------------------------------------------------------------
\* derived notions

NChans(g) == Len(g.chans)
Chans(g) == 1..Len(g.chans)
PoolOf(g) == {h \in Chans(g) : g.chans[h].inPool}
CurSt(g, h) == g.conns[g.chans[h].cur].st
Ready(g, h) == g.chans[h].inPool /\ CurSt(g, h) = "READY"
ReadySet(g) == {h \in Chans(g) : Ready(g, h)}
Streams(g, h) == Cardinality({n \in DOMAIN g.calls : g.calls[n].open /\ g.calls[n].ch = h})
Agg(g) == IF \E h \in PoolOf(g) : CurSt(g, h) = "READY" THEN "READY"
          ELSE IF \E h \in PoolOf(g) : CurSt(g, h) = "CONNECTING" THEN "CONNECTING" ELSE "TF"

BoundCh(g, k) == LET S == {i \in DOMAIN g.bound : g.bound[i].key = k}
                 IN IF S = {} THEN 0 ELSE g.bound[CHOOSE i \in S : TRUE].ch
StandCh(g, k) == LET S == {i \in DOMAIN g.stand : g.stand[i].key = k}
                 IN IF S = {} THEN 0 ELSE g.stand[CHOOSE i \in S : TRUE].ch
SeqFilter(s, P(_)) == LET F[i \in 0..Len(s)] == IF i = 0 THEN <<>>
                                                  ELSE IF P(s[i]) THEN Append(F[i-1], s[i]) ELSE F[i-1]
                      IN F[Len(s)]
DropKey(s, k) == LET P(e) == e.key # k IN SeqFilter(s, P)
SetKey(s, k, h) == Append(DropKey(s, k), [key |-> k, ch |-> h])

\* calls are numbered by the order in which their picks returned; results of blocked picks may be
\* delivered out of that order, so a call is stored at its own number (gaps are closed placeholders)
NoCall == [ch |-> 0, cmd |-> "NONE", key |-> 0, t0 |-> 0, dl |-> 0, open |-> FALSE, ctx |-> FALSE]
PutCall(cs, n, rec) ==
  IF n <= Len(cs) THEN [cs EXCEPT ![n] = rec]
  ELSE [i \in 1..n |-> IF i <= Len(cs) THEN cs[i] ELSE IF i = n THEN rec ELSE NoCall]
Detect(g) == g.cfg.uc > 0 /\ g.cfg.ums > 0

\* a pick-like event delivers the result of a pick: the pick itself or the await/cancel of a blocked one
IsPickEv(ev) == ev.op \in {"pick", "await", "cancel"} /\ ev.res # "SKIPPED"
HasResult(ev) == IsPickEv(ev) /\ ev.res # "BLOCKED"
ShapeOk(ev) == ev.shape \in {"", "list"}
\* routing key of a BOUND/UNBIND call: first key extracted from the request (0 = none)
RouteKey(g, ev) == IF Cmd(g, ev.m) \in {"BOUND", "UNBIND"} /\ ~ev.noctx /\ ShapeOk(ev) /\ Len(ev.keys) > 0
                   THEN ev.keys[1] ELSE NoKey
\* the request is malformed for key extraction (error expected, never a crash)
BadKeyReq(g, ev) == Cmd(g, ev.m) \in {"BOUND", "UNBIND"} /\ ~ev.noctx /\ (~ShapeOk(ev) \/ Len(ev.keys) = 0)
IsRRBind(g, ev) == g.cfg.rr /\ Cmd(g, ev.m) = "BIND"
ConnCh(g, c) == IF c \in DOMAIN g.conns THEN g.conns[c].ch ELSE 0

----------------------------------------------------------------------------
\* folding the balancer's calls on its ClientConn into the ghost

\* seen: a state was reported for the connection (until then `st' is the state a new SubConn starts in, which the balancer records
\* for pool connections only)
NewConn(av, role, ch) == [av |-> av, st |-> "IDLE", role |-> role, ch |-> ch, rm |-> 0, seen |-> FALSE]
NoDet(now) == [lastResp |-> now, de |-> 0, k |-> 0, refreshing |-> FALSE]

\* ctxk: "grow" (resolve / pick), "refresh" (done; h = channel of the completed call), "state"
ApplyOne(g, e, ctxk, h) ==
  CASE e.k = "new" /\ e.ok /\ ctxk = "refresh" /\ h # 0 ->
         [g EXCEPT !.conns = Append(@, NewConn(e.av, "repl", h)),
                   !.chans[h].repl = Len(g.conns) + 1,
                   !.det[h].refreshing = TRUE]
    [] e.k = "new" /\ e.ok /\ ~(ctxk = "refresh" /\ h # 0) ->
         [g EXCEPT !.conns = Append(@, NewConn(e.av, "pool", Len(g.chans) + 1)),
                   !.chans = Append(@, [cur |-> Len(g.conns) + 1, repl |-> 0, inPool |-> TRUE]),
                   !.det = Append(@, NoDet(g.now))]
    [] e.k = "upd" /\ e.c \in DOMAIN g.conns -> [g EXCEPT !.conns[e.c].av = e.av]
    [] e.k = "rm" /\ e.c \in DOMAIN g.conns -> [g EXCEPT !.conns[e.c].rm = IF @ < 2 THEN @ + 1 ELSE 2]
    [] e.k = "st" -> [g EXCEPT !.pubs = Append(@, [st |-> e.s, ready |-> ReadySet(g)])]
    [] OTHER -> g

RECURSIVE ApplyCC(_, _, _, _, _)
ApplyCC(g, cc, i, ctxk, h) ==
  IF i > Len(cc) THEN g ELSE ApplyCC(ApplyOne(g, cc[i], ctxk, h), cc, i + 1, ctxk, h)

\* stand-ins stay valid while the stand-in channel is READY and the home channel is not
PruneStand(g) ==
  LET P(e) == Ready(g, e.ch) /\ BoundCh(g, e.key) > 0 /\ ~Ready(g, BoundCh(g, e.key))
  IN [g EXCEPT !.stand = SeqFilter(g.stand, P)]

----------------------------------------------------------------------------
\* one rule per input kind

Tick(g, ev) == [g EXCEPT !.now = ev.t]

GResolve(g0, ev) ==
  LET g == Tick(g0, ev) IN
  IF ev.res # "OK" THEN g
  ELSE LET first == ~g.init
           g1 == IF first
                 THEN [g EXCEPT !.init = TRUE,
                                !.cfg = IF ev.cfgk = "none" THEN DefaultCfg
                                        ELSE IF ev.cfgk = "other" THEN EffCfg([g.rawcfg EXCEPT !.min = @ + 1, !.max = @ + 2, !.wm = @ + 1, !.fb = ~@, !.rr = ~@])
                                        ELSE g.cfg,
                                !.methods = ev.cfgk # "none"]
                 ELSE g
           g2 == [g1 EXCEPT !.av = ev.av]
       IN ApplyCC(g2, ev.cc, 1, "grow", 0)

GReport(g0, ev) ==
  LET g == Tick(g0, ev)
      c == ev.c
  IN IF c \notin DOMAIN g.conns THEN ApplyCC(g, ev.cc, 1, "state", 0)
     ELSE
     LET role == g.conns[c].role
         h == g.conns[c].ch
         swap == role = "repl" /\ ev.s = "READY"
         g1 == IF swap
               THEN LET old == g.chans[h].cur IN
                    [g EXCEPT !.resur = @ \/ ~g.chans[h].inPool,
                              !.conns[c].role = "pool", !.conns[c].st = "READY",
                              !.conns[old].role = IF g.conns[old].role = "pool" THEN "old" ELSE @,
                              !.chans[h] = [cur |-> c, repl |-> 0, inPool |-> TRUE],
                              !.det[h] = [lastResp |-> g.now, de |-> 0,
                                          k |-> IF g.det[h].k < 6 THEN g.det[h].k + 1 ELSE 6, refreshing |-> FALSE]]
               ELSE IF role = "pool"
               THEN IF ev.s = "SHUTDOWN"
                    THEN [g EXCEPT !.conns[c].st = "SHUTDOWN", !.conns[c].role = "gone", !.chans[h].inPool = FALSE]
                    ELSE [g EXCEPT !.conns[c].st = ev.s, !.conns[c].seen = TRUE]
               ELSE IF role = "repl" THEN [g EXCEPT !.conns[c].st = ev.s, !.conns[c].seen = TRUE]     \* a pending replacement that is not READY yet
               ELSE g
         g2 == IF swap \/ role = "pool" THEN [g1 EXCEPT !.agg = Agg(g1)] ELSE g1
         g3 == PruneStand(g2)
     IN ApplyCC(g3, ev.cc, 1, "state", 0)

\* bookkeeping of round-robin BIND picks: start order, assigned channel once known
GPickStart(g, ev) ==
  IF ev.op = "pick" /\ IsRRBind(g, ev) /\ ev.res \notin {"SKIPPED", "TF"} /\ ev.pk \in DOMAIN g.pubs /\ g.pubs[ev.pk].ready # {}
  THEN [g EXCEPT !.rrs = Append(@, [n |-> NChans(g), ch |-> 0])] ELSE g

PendQ(g, i) == LET S == {j \in DOMAIN g.pend : g.pend[j].i = i}
               IN IF S = {} THEN 0 ELSE g.pend[CHOOSE j \in S : TRUE].q
\* sequence number (in rrs) of the RR BIND pick whose result this event delivers; 0 if not RR
RRSeq(g, gs, ev) == IF ev.op = "pick" THEN (IF Len(gs.rrs) > Len(g.rrs) THEN Len(gs.rrs) ELSE 0)
                    ELSE PendQ(g, ev.of)

GPick(g0, ev) ==
  LET g == Tick(g0, ev)
      gs == GPickStart(g, ev)
      q == RRSeq(g, gs, ev)
      g1 == ApplyCC(gs, ev.cc, 1, "grow", 0)
  IN IF ev.res = "SKIPPED" THEN g
     ELSE IF ev.res = "BLOCKED"
     THEN (IF ev.op = "pick" THEN [g1 EXCEPT !.pend = Append(@, [i |-> ev.i, q |-> q])] ELSE g1)
     ELSE
     LET LeavePend(x) == IF ev.op = "pick" THEN x
                         ELSE LET P(e) == e.i # ev.of IN [x EXCEPT !.pend = SeqFilter(x.pend, P)]
         g2 == LeavePend(g1)
     IN IF ev.res # "SC" \/ ev.rc \notin DOMAIN g2.conns THEN g2
        ELSE
        LET h == g2.conns[ev.rc].ch
            key == RouteKey(g, ev)
            home == BoundCh(g, key)
            g3 == [g2 EXCEPT !.calls = PutCall(@, ev.rn, [ch |-> h, cmd |-> Cmd(g, ev.m), key |-> key, t0 |-> ev.rt,
                                                          dl |-> ev.dl, open |-> TRUE, ctx |-> ~ev.noctx])]
            g4 == IF q # 0 /\ q \in DOMAIN g3.rrs THEN [g3 EXCEPT !.rrs[q].ch = h] ELSE g3
            g5 == IF key # NoKey /\ home > 0 /\ g.cfg.fb /\ ~Ready(g, home) /\ Ready(g, h)
                  THEN [g4 EXCEPT !.stand = SetKey(g4.stand, key, h)] ELSE g4
        IN g5

IsClientDE(g, cl, ev) == ev.out = "CDE" /\ cl.dl > 0 /\ cl.dl <= g.now

GDone(g0, ev) ==
  LET g == Tick(g0, ev) IN
  IF ev.res = "SKIPPED" \/ ev.n \notin DOMAIN g.calls \/ g.calls[ev.n].ch = 0 THEN g
  ELSE
  LET cl == g.calls[ev.n]
      h == cl.ch
      d0 == g.det[h]
      isResp == ~IsClientDE(g, cl, ev)
      counted == ~isResp /\ ~(cl.t0 < d0.lastResp)
      d1 == IF ~Detect(g) THEN d0
            ELSE IF isResp THEN [d0 EXCEPT !.lastResp = g.now, !.de = 0, !.k = 0]
            ELSE IF counted THEN [d0 EXCEPT !.de = IF @ < 50 THEN @ + 1 ELSE 50] ELSE d0
      g1 == [g EXCEPT !.calls[ev.n].open = FALSE, !.det[h] = d1]
      g2 == ApplyCC(g1, ev.cc, 1, "refresh", h)
      ok == ev.out = "OK" /\ ev.res = "OK"
      RECURSIVE BindAll(_, _)
      BindAll(x, i) == IF i > Len(ev.rkeys) THEN x
                       ELSE LET k == ev.rkeys[i] IN
                            BindAll(IF BoundCh(x, k) # 0 THEN x
                                    ELSE [x EXCEPT !.bound = SetKey(x.bound, k, IF g.chans[h].inPool THEN h ELSE -1)], i + 1)
      g3 == IF ok /\ cl.cmd = "BIND" /\ cl.ctx THEN BindAll(g2, 1)
            ELSE IF ok /\ cl.cmd = "UNBIND" /\ cl.key # NoKey
            THEN [g2 EXCEPT !.bound = DropKey(g2.bound, cl.key), !.stand = DropKey(g2.stand, cl.key)]
            ELSE g2
  IN PruneStand(g3)

GhostNext(g, ev) ==
  CASE ev.op = "resolve" -> GResolve(g, ev)
    [] ev.op = "state" -> GReport(g, ev)
    [] ev.op \in {"pick", "await", "cancel"} -> GPick(g, ev)
    [] ev.op = "done" -> GDone(g, ev)
    \* these inputs are not expected to make the balancer call its ClientConn; whatever it does is still folded in
    [] ev.op = "advance" -> ApplyCC(Tick(g, ev), ev.cc, 1, "state", 0)
    [] ev.op = "factory" -> ApplyCC([Tick(g, ev) EXCEPT !.failing = ev.fail], ev.cc, 1, "state", 0)
    [] ev.op = "rerr" -> ApplyCC(Tick(g, ev), ev.cc, 1, "state", 0)
    [] OTHER -> g

----------------------------------------------------------------------------
\* Clauses.  Each is [id, on, ok]: `on' = antecedent held (non-vacuous), `ok' = antecedent => consequent.

Cl(id, ante, cons) == [id |-> id, on |-> ante, ok |-> (ante => cons)]

CCKinds(ev, k) == {i \in DOMAIN ev.cc : ev.cc[i].k = k}
NewsOk(ev) == {i \in DOMAIN ev.cc : ev.cc[i].k = "new" /\ ev.cc[i].ok}
NewsAll(ev) == CCKinds(ev, "new")

\* ---- pick classification against the pre-state g
PKey(g, ev) == RouteKey(g, ev)
PHome(g, ev) == BoundCh(g, PKey(g, ev))
KeyedBound(g, ev) == HasResult(ev) /\ PKey(g, ev) # NoKey /\ PHome(g, ev) > 0
KeyedUnspec(g, ev) == HasResult(ev) /\ PKey(g, ev) # NoKey /\ PHome(g, ev) < 0
\* calls routed like calls without a key: no key, unknown key
Unkeyed(g, ev) == HasResult(ev) /\ ~BadKeyReq(g, ev) /\ (PKey(g, ev) = NoKey \/ PHome(g, ev) = 0) /\ ~IsRRBind(g, ev)
PickerOk(g, ev) == ev.pk \in DOMAIN g.pubs
PReady(g, ev) == g.pubs[ev.pk].ready
PlacedCh(g, ev) == ConnCh(g, ev.rc)
PlacedOnCur(g, ev) == ev.res = "SC" /\ PlacedCh(g, ev) # 0 /\ g.chans[PlacedCh(g, ev)].cur = ev.rc

C01(g, ev, g2) ==
  LET h == PHome(g, ev) IN
  { Cl("C01_a", KeyedBound(g, ev) /\ Ready(g, h) /\ ev.res = "SC",
                 ev.rc = g.chans[h].cur),
     Cl("C01_b", KeyedBound(g, ev) /\ Ready(g, h) /\ ev.lat,
                 ev.res = "SC" /\ ev.rc = g.chans[h].cur),
     Cl("C01_d", KeyedBound(g, ev) /\ ~Ready(g, h) /\ ~g.cfg.fb,
                 ev.res \in {"NOSC", "TF"}),
     \* "after the UNBIND, K is routed like an unknown key": a call that carries a key without a home is placed like a call without a
     \* key (the consequents of C02_d and C02_a, restricted to calls that do carry a key)
     Cl("C01_u", Unkeyed(g, ev) /\ PKey(g, ev) # NoKey /\ PickerOk(g, ev) /\ g.pubs[ev.pk].st # "TF"
                   /\ \E x \in PReady(g, ev) : Streams(g, x) < g.cfg.wm,
                 ev.res = "SC"),
     Cl("C01_u2", Unkeyed(g, ev) /\ PKey(g, ev) # NoKey /\ ev.res = "SC" /\ PickerOk(g, ev),
                 /\ PlacedOnCur(g, ev)
                 /\ PlacedCh(g, ev) \in PReady(g, ev)
                 /\ \A x \in PReady(g, ev) : Streams(g, PlacedCh(g, ev)) <= Streams(g, x)) }

C02(g, ev, g2) ==
  { Cl("C02_a", Unkeyed(g, ev) /\ ev.res = "SC" /\ PickerOk(g, ev),
                 /\ PlacedOnCur(g, ev)
                 /\ PlacedCh(g, ev) \in PReady(g, ev)
                 /\ \A x \in PReady(g, ev) : Streams(g, PlacedCh(g, ev)) <= Streams(g, x)),
     Cl("C02_b", ev.op \notin {"reset", "end", "stress"} /\ ev.wb.ok /\ g2.pend = <<>> /\ ev.res \notin {"PANIC", "HANG", "SPIN"},
                 /\ Len(ev.wb.streams) = NChans(g2)
                 /\ \A x \in Chans(g2) : ev.wb.streams[x] = Streams(g2, x)),
     Cl("C02_d", Unkeyed(g, ev) /\ PickerOk(g, ev) /\ g.pubs[ev.pk].st # "TF"
                   /\ \E x \in PReady(g, ev) : Streams(g, x) < g.cfg.wm,
                 ev.res = "SC") }

\* C03_s (evaluated in PoolTrace on "stress" events): after concurrent picks on different pickers, run with yields at
\* every lock acquisition (the interleaving PoolConc.tla exhibits), the pool still holds at most maxSize channels
StressOK(ev) == ev.pool <= ev.max
\* C02_s / C04_s (same events): after a concurrent round (serialised balancer callbacks || picks || completions from many goroutines, yields
\* at every lock) and completion of every call, the stream counters are back to zero and the evaluator counters match the recorded states
StressLeakOK(ev) == ev.leak = 0
StressCntOK(ev) == ev.cntok
\* C09_s (kind "rr": 12 goroutines issue BIND calls over n READY channels, n | total; kind "rrwrap": the cursor starts just below
\* 2^31 and 4n sequential BIND calls follow): every channel got the same number of calls and no call failed or panicked
StressRROK(ev) == ev.rrmin = ev.rrmax /\ ev.res = "OK"

Saturated(g, S) == \A x \in S : Streams(g, x) >= g.cfg.wm
NoIdleConnecting(g) == \A x \in PoolOf(g) : CurSt(g, x) \notin {"IDLE", "CONNECTING"}

C03(g, ev, g2) ==
  LET firstInit == ev.op = "resolve" /\ ev.res = "OK" /\ ~g.init
      emptyPool == PoolOf(g) = {}
  IN
  { Cl("C03_a", ev.op = "resolve" /\ ev.res = "OK" /\ ev.av # 0 /\ ~g.failing /\ NChans(g) = 0,
                 /\ Cardinality(NewsOk(ev)) = Max2(1, g2.cfg.min)
                 /\ Cardinality(PoolOf(g2)) = Max2(1, g2.cfg.min)),
     Cl("C03_b", NewsOk(ev) # {} /\ ev.op # "done" /\ ~(ev.op = "resolve" /\ NChans(g) = 0),
                 \/ ((emptyPool \/ (ev.op = "state" /\ ev.s = "SHUTDOWN" /\ PoolOf(g) = {ConnCh(g, ev.c)}))
                      /\ ev.op \in {"resolve", "state"} /\ Cardinality(NewsOk(ev)) <= Max2(1, g.cfg.min))
                 \/ /\ ev.op = "pick" /\ ev.res = "NOSC" /\ PickerOk(g, ev)
                    /\ Cardinality(NewsOk(ev)) = 1
                    /\ Cardinality(PoolOf(g)) < g.cfg.max
                    /\ NoIdleConnecting(g)
                    /\ (Saturated(g, PReady(g, ev)) \/ Saturated(g, ReadySet(g)))),
     Cl("C03_c", Unkeyed(g, ev) /\ PickerOk(g, ev) /\ g.pubs[ev.pk].st # "TF" /\ PReady(g, ev) # {}
                   /\ Cardinality(PoolOf(g)) >= g.cfg.max,
                 ev.res = "SC"),
     \* "a channel is added ... by a call that finds every READY channel at or above the watermark ... and that call is told to wait":
     \* a call without a home that is told to wait although its picker has READY channels waits *for* something - the connection it
     \* just caused to be created, or a connection that is idle / connecting (a pending replacement included); with none of these
     \* nothing would ever make the wait end
     Cl("C03_w", Unkeyed(g, ev) /\ PickerOk(g, ev) /\ g.pubs[ev.pk].st # "TF" /\ PReady(g, ev) # {} /\ ev.res = "NOSC",
                 \/ \E i \in DOMAIN ev.cc : ev.cc[i].k = "new"          \* created, or tried to (the ClientConn may refuse)
                 \/ \E c \in DOMAIN g.conns : g.conns[c].st \in {"IDLE", "CONNECTING"} /\ (g.conns[c].role # "repl" \/ g.conns[c].seen)),
     Cl("C03_d", g2.init /\ g2.cfg.min <= g2.cfg.max,
                 Cardinality(PoolOf(g2)) <= g2.cfg.max),
     \* "a refresh may hold one extra connection per refreshing channel until the swap": never two pending replacements of one channel
     Cl("C03_f", NewsOk(ev) # {} /\ ev.op = "done",
                 \A h \in Chans(g2) : Cardinality({c \in DOMAIN g2.conns : g2.conns[c].role = "repl" /\ g2.conns[c].ch = h /\ g2.conns[c].rm = 0}) <= 1),
     \* a completion may start a replacement only for a channel that is still in the pool (a channel that left it must not come back)
     Cl("C03_g", NewsOk(ev) # {} /\ ev.op = "done" /\ ev.res # "SKIPPED" /\ ev.n \in DOMAIN g.calls /\ g.calls[ev.n].ch # 0,
                 g.chans[g.calls[ev.n].ch].inPool),
     Cl("C03_e", CCKinds(ev, "rm") # {},
                 /\ Cardinality(CCKinds(ev, "rm")) = 1
                 /\ ev.op = "state" /\ ev.c \in DOMAIN g.conns /\ g.conns[ev.c].role = "repl" /\ ev.s = "READY"
                 /\ \A i \in CCKinds(ev, "rm") :
                       /\ ev.cc[i].c = g.chans[g.conns[ev.c].ch].cur
                       /\ g.conns[ev.cc[i].c].rm = 0) }

StEntries(ev) == CCKinds(ev, "st")

C04(g, ev, g2) ==
  { Cl("C04_a", g2.pubs # <<>> /\ ev.op \notin {"reset", "end", "stress"},
                 Last(g2.pubs).st = Agg(g2) /\ Last(g2.pubs).ready = ReadySet(g2)),
     Cl("C04_b", ev.op = "state" /\ (ReadySet(g) # ReadySet(g2) \/ (g.agg = "TF") # (g2.agg = "TF")),
                 StEntries(ev) # {}),
     Cl("C04_c", HasResult(ev) /\ PickerOk(g, ev) /\ ev.res \notin {"PANIC", "HANG", "SPIN", "TIMEOUT"},
                 (ev.res = "TF") <=> (g.pubs[ev.pk].st = "TF")),
     Cl("C04_e", ev.op \notin {"reset", "end", "stress"} /\ ev.wb.ok /\ ev.res \notin {"PANIC", "HANG", "SPIN"},
                 /\ ev.wb.nr = Cardinality({x \in PoolOf(g2) : CurSt(g2, x) = "READY"})
                 /\ ev.wb.nc = Cardinality({x \in PoolOf(g2) : CurSt(g2, x) = "CONNECTING"})
                 /\ ev.wb.nt = Cardinality({x \in PoolOf(g2) : CurSt(g2, x) = "TF"})),
     \* a publication made by any other kind of event (harmless re-publication) must be consistent too: C04_a is evaluated on every event
     Cl("C04_f", StEntries(ev) # {} /\ ev.op # "state", Last(g2.pubs).st = Agg(g2) /\ Last(g2.pubs).ready = ReadySet(g2)) }

C05(g, ev, g2) ==
  { Cl("C05_a", ev.op \notin {"reset", "end", "stress"}, ev.res # "PANIC" /\ ev.probe # "PANIC"),
     Cl("C05_b", HasResult(ev) /\ BadKeyReq(g, ev) /\ PickerOk(g, ev) /\ g.pubs[ev.pk].st # "TF" /\ PReady(g, ev) # {},
                 ev.res \in {"ERR", "NOSC"}) }

CtxEnded(g, ev) == ev.op = "cancel" \/ (ev.dl > 0 /\ ev.dl <= g.now)

C06(g, ev, g2) ==
  { Cl("C06_a", ev.op \notin {"reset", "end", "stress"}, ev.res \notin {"HANG", "SPIN"}),
     Cl("C06_b", IsPickEv(ev) /\ ev.res = "BLOCKED",
                 IsRRBind(g, ev) /\ ~CtxEnded(Tick(g, ev), ev) /\ \E x \in Chans(g) : ~Ready(g, x)),
     Cl("C06_d", ev.op \notin {"reset", "end", "stress"} /\ ev.res \notin {"PANIC", "HANG", "SPIN", "TIMEOUT", "SKIPPED"},
                 ev.probe = "OK") }

\* refresh rule evaluated on the ghost detector of the call's channel (pre-state g, time of the event)
RefreshDue(g, ev) ==
  LET gt == Tick(g, ev)
      cl == g.calls[ev.n]
      d0 == g.det[cl.ch]
  IN /\ Detect(g)
     /\ IsClientDE(gt, cl, ev)
     /\ ~(cl.t0 < d0.lastResp)
     /\ d0.de + 1 >= g.cfg.uc
     /\ ev.t - d0.lastResp > g.cfg.ums * Pow2(d0.k)
     /\ ~d0.refreshing

C07(g, ev, g2) ==
  LET isDone == ev.op = "done" /\ ev.res # "SKIPPED" /\ ev.n \in DOMAIN g.calls /\ g.calls[ev.n].ch # 0
      isSwap == ev.op = "state" /\ ev.c \in DOMAIN g.conns /\ g.conns[ev.c].role = "repl" /\ ev.s = "READY"
  IN
  { Cl("C07_a", isDone /\ g.chans[g.calls[ev.n].ch].inPool /\ ev.res = "OK",
                 Cardinality(NewsAll(ev)) = (IF RefreshDue(g, ev) THEN 1 ELSE 0)),
     Cl("C07_b", NewsAll(ev) # {} /\ ev.op = "done" /\ isDone,
                 /\ CCKinds(ev, "rm") = {}
                 /\ g.chans[g.calls[ev.n].ch].repl = 0),
     Cl("C07_c", isSwap,
                 LET h == g.conns[ev.c].ch
                     old == g.chans[h].cur
                 IN /\ Cardinality(CCKinds(ev, "rm")) = 1
                    /\ \A i \in CCKinds(ev, "rm") : ev.cc[i].c = old),
     \* "at that moment the replacement takes over the channel": when the take-over leaves the channel READY, the picker published last serves it
     Cl("C07_t", isSwap /\ g2.pubs # <<>> /\ Ready(g2, g.conns[ev.c].ch),
                 g.conns[ev.c].ch \in Last(g2.pubs).ready),
     Cl("C07_e", ev.op \in {"rerr", "advance", "factory"} \/ (IsPickEv(ev) /\ ev.op # "pick"),
                 \* resolver errors, the clock, the factory switch and the delivery of a waiting pick never create connections
                 NewsAll(ev) = {}) }

C08(g, ev, g2) ==
  LET h == PHome(g, ev)
      k == PKey(g, ev)
      ante == KeyedBound(g, ev) /\ g.cfg.fb /\ ~Ready(g, h) /\ PickerOk(g, ev)
  IN
  { Cl("C08_a", ante /\ ev.lat /\ ReadySet(g) # {},
                 PlacedOnCur(g, ev) /\ Ready(g, PlacedCh(g, ev))),
     Cl("C08_b", ante /\ StandCh(g, k) > 0 /\ ev.res = "SC",
                 ev.rc = g.chans[StandCh(g, k)].cur),
     Cl("C08_e", ante /\ ev.res = "SC",
                 PlacedOnCur(g, ev) /\ Ready(g, PlacedCh(g, ev))),
     \* "from the moment the home channel is READY again every call for the key goes back to the home channel":
     \* whatever stand-in was used meanwhile (and whatever happened to the key's binding since) is forgotten
     Cl("C08_h", KeyedBound(g, ev) /\ g.cfg.fb /\ Ready(g, h) /\ ev.res = "SC",
                 ev.rc = g.chans[h].cur),
     Cl("C08_h2", KeyedBound(g, ev) /\ g.cfg.fb /\ Ready(g, h) /\ ev.lat,
                 ev.res = "SC" /\ ev.rc = g.chans[h].cur) }

\* round-robin: neighbours in start order over an unchanged channel list get cyclically consecutive channels
RRNext(h, n) == (h % n) + 1
C09(g, ev, g2) ==
  LET gs == GPickStart(Tick(g, ev), ev)
      q == RRSeq(Tick(g, ev), gs, ev)
      known == HasResult(ev) /\ IsRRBind(g, ev) /\ ev.res = "SC" /\ q # 0 /\ q \in DOMAIN g2.rrs
      ch == PlacedCh(g, ev)
  IN
  { Cl("C09_a", known /\ q > 1 /\ g2.rrs[q-1].ch # 0 /\ g2.rrs[q-1].n = g2.rrs[q].n,
                 ch = RRNext(g2.rrs[q-1].ch, g2.rrs[q].n)),
     Cl("C09_a2", known /\ q < Len(g2.rrs) /\ g2.rrs[q+1].ch # 0 /\ g2.rrs[q+1].n = g2.rrs[q].n,
                 g2.rrs[q+1].ch = RRNext(ch, g2.rrs[q].n)),
     Cl("C09_b", known /\ ~CtxEnded(Tick(g, ev), ev),
                 PlacedOnCur(g, ev) /\ Ready(g, ch)),
     Cl("C09_c", ev.op \in {"await", "cancel"} /\ ev.res = "BLOCKED",
                 ~CtxEnded(Tick(g, ev), ev) /\ \E x \in Chans(g) : ~Ready(g, x)),
     Cl("C09_e", known, ch \in Chans(g)),
     \* "handed its channel once READY ... or returns promptly": a round-robin BIND call returns (HANG: its goroutine is parked on a
     \* mutex for good; SPIN: it burns the CPU without returning or waiting)
     Cl("C09_h", IsPickEv(ev) /\ IsRRBind(g, ev), ev.res \notin {"HANG", "SPIN"}) }

MethodTable == {"/v/Bind=BIND:list", "/v/Bound=BOUND:list", "/v/Bound2=BOUND:list", "/v/Unbind=UNBIND:list"}
C17(g, ev, g2) ==
  { Cl("C17_e", ev.op = "end", ev.res = "OK"),
    \* effective configuration = supplied one with the three zero-defaults, fixed by the first accepted resolver update (white-box)
    Cl("C17_c", ev.op \notin {"reset", "end", "stress"} /\ ev.wb.ok /\ g2.init /\ ev.res \notin {"PANIC", "HANG", "SPIN"},
                /\ ev.wb.cfgset
                /\ ev.wb.ecfg.min = g2.cfg.min /\ ev.wb.ecfg.max = g2.cfg.max /\ ev.wb.ecfg.wm = g2.cfg.wm
                /\ ev.wb.ecfg.fb = g2.cfg.fb /\ ev.wb.ecfg.uc = g2.cfg.uc /\ ev.wb.ecfg.ums = g2.cfg.ums /\ ev.wb.ecfg.rr = g2.cfg.rr),
    \* every listed method with an affinity section is mapped to its command and key path, and no other method is
    Cl("C17_m", ev.op \notin {"reset", "end", "stress"} /\ ev.wb.ok /\ g2.init /\ ev.res \notin {"PANIC", "HANG", "SPIN"},
                SeqToSet(ev.wb.meths) = (IF g2.methods THEN MethodTable ELSE {})),
     Cl("C17_b", ev.op = "resolve" /\ ev.cfgk = "bad" /\ ~g.init, ev.res = "ERR" /\ ev.cc = <<>>) }

C20(g, ev, g2) ==
  LET isSwap == ev.op = "state" /\ ev.c \in DOMAIN g.conns /\ g.conns[ev.c].role = "repl" /\ ev.s = "READY"
      Upd(c) == \E i \in DOMAIN ev.cc : ev.cc[i].k = "upd" /\ ev.cc[i].c = c /\ ev.cc[i].av = ev.av
      Con(c) == \E i \in DOMAIN ev.cc : ev.cc[i].k = "conn" /\ ev.cc[i].c = c
  IN
  { Cl("C20_a", ev.op = "resolve" /\ ev.res = "OK" /\ g.init,
                 \A h \in PoolOf(g) : Upd(g.chans[h].cur) /\ Con(g.chans[h].cur)),
     Cl("C20_a2", ev.op = "resolve" /\ ev.res = "OK",
                 \A h \in PoolOf(g2) : g2.conns[g2.chans[h].cur].av = ev.av),
     Cl("C20_b", NewsOk(ev) # {},
                 \A i \in NewsOk(ev) : ev.cc[i].av = g2.av /\ Con(ev.cc[i].c)),
     Cl("C20_c", isSwap, g2.conns[ev.c].av = g2.av),
     \* a resolver error touches no connection; if the balancer publishes at all, the publication is the unchanged aggregate and ready set
     Cl("C20_d", ev.op = "rerr",
                 /\ ev.res = "OK"
                 /\ \A i \in DOMAIN ev.cc : ev.cc[i].k = "st"
                 /\ (StEntries(ev) # {} => (Last(g2.pubs).st = Agg(g2) /\ Last(g2.pubs).ready = ReadySet(g2) /\ g.pubs # <<>> /\ Last(g2.pubs).st = Last(g.pubs).st))) }

Clauses(g, ev, g2) ==
  C01(g, ev, g2) \cup C02(g, ev, g2) \cup C03(g, ev, g2) \cup C04(g, ev, g2) \cup C05(g, ev, g2) \cup C06(g, ev, g2)
  \cup C07(g, ev, g2) \cup C08(g, ev, g2) \cup C09(g, ev, g2) \cup C17(g, ev, g2) \cup C20(g, ev, g2)

ClauseIds == {"C01_a", "C01_b", "C01_d", "C01_u", "C01_u2", "C02_a", "C02_b", "C02_d", "C03_a", "C03_b", "C03_c", "C03_d", "C03_e", "C03_f", "C03_g", "C03_w", "C03_s", "C02_s", "C04_s", "C09_s",
              "C04_a", "C04_b", "C04_c", "C04_e", "C04_f", "C05_a", "C05_b", "C06_a", "C06_b", "C06_d",
              "C07_a", "C07_b", "C07_c", "C07_t", "C07_e", "C08_a", "C08_b", "C08_e", "C08_h", "C08_h2",
              "C09_a", "C09_a2", "C09_b", "C09_c", "C09_e", "C09_h", "C17_e", "C17_b", "C17_c", "C17_m", "C20_a", "C20_a2", "C20_b", "C20_c", "C20_d"}

\* descriptors used to match violations against the known-findings file
Tags(g2) == IF g2.resur THEN {"resurrected"} ELSE {}

\* model-level exemption mirroring the open entries of known_findings.json (KF-B7), so that TLC keeps
\* exploring past the known finding; trace validation reports every violation with its tags and the
\* driver matches them against the file
Exempt(id, g2) == id = "C03_d" /\ g2.resur

\* the clauses whose antecedent held on this event, each with its verdict (one evaluation of every clause)
Exercised(g, ev, g2) == {[id |-> c.id, ok |-> c.ok] : c \in {x \in Clauses(g, ev, g2) : x.on}}
=============================================================================
