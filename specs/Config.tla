------------------------------- MODULE Config -------------------------------
(***************************************************************************)
(* C17 (configuration text): the space of channel-pool configurations as     *)
(* TLA+ records whose field names are the proto-JSON names, so that TLC's    *)
(* ToJson rendering of a record *is* a well-formed JSON rendering of the     *)
(* message (independent of protojson).  Norm(cfg) fills absent fields with   *)
(* their zero values: what a lossless parser must return.                    *)
(* Corruptions (unknown field, wrong type, trailing garbage, not an object)  *)
(* are applied by the harness to the rendered text; all must be rejected.    *)
(***************************************************************************)
EXTENDS Integers, Sequences, FiniteSets, TLC, Json

Opt(name, vals) == {<<>>} \cup {<<[k |-> name, v |-> x]>> : x \in vals}

\* a record from a sequence of optional [k, v] pairs cannot be built generically in TLA+ with dynamic field
\* names, so the pool variants are enumerated as explicit record shapes
Pools ==
  {[z |-> TRUE]} \cup
  {[z |-> FALSE, maxSize |-> a, minSize |-> b, maxConcurrentStreamsLowWatermark |-> c, fallbackToReady |-> f] :
       a \in {0, 3}, b \in {0, 2}, c \in {0, 7}, f \in BOOLEAN} \cup
  {[z |-> FALSE, maxSize |-> 4, unresponsiveDetectionMs |-> u, unresponsiveCalls |-> n, bindPickStrategy |-> s] :
       u \in {0, 500}, n \in {0, 3}, s \in {"UNSPECIFIED", "LEAST_ACTIVE_STREAMS", "ROUND_ROBIN"}} \cup
  {[z |-> FALSE, idleTimeout |-> t] : t \in {"0", "90"}} \cup
  {[z |-> FALSE]}

Aff(c, k) == [command |-> c, affinityKey |-> k]
MethodLists ==
  { <<>>,
    <<[name |-> <<"/s/A">>, affinity |-> Aff("BIND", "name")]>>,
    <<[name |-> <<"/s/A", "/s/B">>, affinity |-> Aff("BOUND", "a.b")], [name |-> <<"/s/C">>, affinity |-> Aff("UNBIND", "a.b")]>>,
    <<[name |-> <<"/s/A">>]>>,
    <<[name |-> <<>>, affinity |-> Aff("BIND", "")], [name |-> <<"/s/A", "/s/AA">>, affinity |-> Aff("BOUND", "x")]>> }

Corruptions == {"none", "unknown", "wrongtype", "garbage", "array", "snake"}
Vectors == {[kind |-> "cfg", pool |-> p, method |-> m, corrupt |-> c] : p \in Pools, m \in MethodLists, c \in Corruptions}

\* what a lossless parser returns: every scalar present (zero if absent), as the harness projects the parsed message
Get(r, f, d) == IF f \in DOMAIN r THEN r[f] ELSE d
NormPool(p) == IF p.z THEN [z |-> TRUE]
               ELSE [z |-> FALSE, maxSize |-> Get(p, "maxSize", 0), minSize |-> Get(p, "minSize", 0),
                     maxConcurrentStreamsLowWatermark |-> Get(p, "maxConcurrentStreamsLowWatermark", 0),
                     fallbackToReady |-> Get(p, "fallbackToReady", FALSE), unresponsiveDetectionMs |-> Get(p, "unresponsiveDetectionMs", 0),
                     unresponsiveCalls |-> Get(p, "unresponsiveCalls", 0), bindPickStrategy |-> Get(p, "bindPickStrategy", "UNSPECIFIED"),
                     idleTimeout |-> Get(p, "idleTimeout", "0")]
NormMethod(m) == [name |-> m.name, hasaff |-> "affinity" \in DOMAIN m,
                  command |-> IF "affinity" \in DOMAIN m THEN m.affinity.command ELSE "",
                  affinityKey |-> IF "affinity" \in DOMAIN m THEN m.affinity.affinityKey ELSE ""]
NormMethods(ms) == [i \in DOMAIN ms |-> NormMethod(ms[i])]
Accepted(v) == v.corrupt \in {"none", "snake"}

VARIABLE done
EmitAll == (\A v \in Vectors : PrintT(<<"VEC", ToJson(v)>>)) /\ done = TRUE
NextNone == UNCHANGED done
=============================================================================
