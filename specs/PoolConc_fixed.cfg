CONSTANTS
 Picks = {1, 2, 3}
 PickerOf = 0
 MaxSize = 3
 InitSize = 2
 CheckUnderLock = TRUE
 NPickers = 2
SPECIFICATION Spec
INVARIANTS PoolBound NoSelfLock LocksetOK EmitOverlaps
PROPERTIES AllFinish
CHECK_DEADLOCK FALSE
