------------------------------- MODULE GCPME -------------------------------
(***************************************************************************)
(* Mechanism layer of grpcgcp/gcp_multiendpoint.go: the maps `mes' and       *)
(* `pools', the default name, one monitored connection per pool, and         *)
(* UpdateMultiEndpoints as the code applies it (validate, dial missing pools *)
(* in map order - a dial failure leaves the pools dialled so far -, update / *)
(* create MultiEndpoints, drop obsolete ones, close obsolete pools, push the *)
(* pools' connectivity).  MultiEndpoints run without recovery timeout and    *)
(* switching delay, so each one's current endpoint follows Exp (see          *)
(* GCPMEGhost; the timer behaviour is the subject of ME.tla).  The harness   *)
(* replays every script a second time with a recovery timeout and a         *)
(* switching delay on a virtual clock (inputs "tick"): see GCPMEGhost.       *)
(* Every action builds the event the harness would record after settling.    *)
(***************************************************************************)
EXTENDS GCPMEGhost, Json

CONSTANTS MaxDepth, Endpoints, OptSets, MaxRpc, MaxSever, Ticks   \* Ticks: clock advances offered as inputs (no effect without timers)

VARIABLES alive, closed, mes, def, pools, up, cur, conns, g, ev, hist,
          sev,      \* endpoints whose pool connection the application closed itself (the pool stays in `pools' until an update drops it)
          pmes      \* history variable: the MultiEndpoints of the option set accepted before the current one
mvars == <<alive, closed, mes, def, pools, up, cur, conns, sev>>
vars == <<mvars, g, ev, hist, pmes>>

\* OptSets is a set of indices into the catalogue of option sets below (kept small and explicit)
L(a) == <<a>>
Catalogue == <<
  [mes |-> <<[name |-> "m1", eps |-> <<"a", "b">>]>>, def |-> "m1"],
  [mes |-> <<[name |-> "m1", eps |-> <<"a", "b">>], [name |-> "m2", eps |-> <<"b", "c">>]>>, def |-> "m1"],
  [mes |-> <<[name |-> "m1", eps |-> <<"b", "a">>], [name |-> "m2", eps |-> <<"c">>]>>, def |-> "m2"],
  [mes |-> <<[name |-> "m1", eps |-> <<"c">>]>>, def |-> "m1"],
  [mes |-> <<[name |-> "m2", eps |-> <<"c", "a">>], [name |-> "m3", eps |-> <<"a">>]>>, def |-> "m3"],
  [mes |-> <<[name |-> "m1", eps |-> <<"a", "b">>]>>, def |-> "m2"],                                      \* default without options
  [mes |-> <<[name |-> "m1", eps |-> <<>>]>>, def |-> "m1"],                                              \* empty list (existing or new name)
  [mes |-> <<[name |-> "m1", eps |-> <<"b">>], [name |-> "m3", eps |-> <<>>]>>, def |-> "m1"],            \* one good entry, one empty
  [mes |-> <<[name |-> "m1", eps |-> <<"b", "c", "a">>], [name |-> "m2", eps |-> <<"a">>]>>, def |-> "m1"],
  [mes |-> <<[name |-> "m1", eps |-> <<"a", "b", "c">>]>>, def |-> "m1"],                                 \* 10: option set 1 is this list without its tail
  [mes |-> <<[name |-> "m1", eps |-> <<"a">>], [name |-> "", eps |-> <<"b">>]>>, def |-> "m1"]             \* 11: a non-default MultiEndpoint whose name is the empty string
>>

Init ==
  /\ alive = FALSE /\ closed = FALSE /\ mes = <<>> /\ def = "" /\ pools = {} /\ up = Endpoints
  /\ cur = <<>> /\ conns = <<>> /\ pmes = <<>> /\ sev = {}
  /\ g = GGInit
  /\ ev = [op |-> "reset"]
  /\ hist = <<>>

BaseEv(op) == [op |-> op, mes |-> <<>>, def |-> "", faildial |-> 0, e |-> "", name |-> "", stream |-> FALSE, n |-> 0, res |-> "OK", srv |-> "", dials |-> <<>>,
               conns |-> conns, pools |-> <<>>, routes0 |-> cur, routes |-> cur, settled |-> TRUE, gor |-> 0, i |-> Len(hist) + 1]

SetToSeq(S) == LET RECURSIVE F(_)
                   F(T) == IF T = {} THEN <<>> ELSE LET x == CHOOSE y \in T : \A z \in T : Idx(<<"a", "b", "c", "d">>, y) <= Idx(<<"a", "b", "c", "d">>, z)
                                                    IN <<x>> \o F(T \ {x})
               IN F(S)

Commit(e, inp) ==
  \E ee \in {e} :
    /\ ev' = ee
    /\ g' = GGNext(g, ee)
    /\ hist' = Append(hist, inp)

MechRoutes(c, m, A) ==
  LET ns == SortedNames(Names(m))
      CurIn(n) == LET S == {i \in DOMAIN c : c[i].name = n} IN IF S = {} THEN "" ELSE c[CHOOSE i \in S : TRUE].e
  IN [i \in DOMAIN ns |-> [name |-> ns[i], e |-> Exp(CurIn(ns[i]), EpsOf(m, ns[i]), A)]]

CloseConns(cs, S) == [i \in DOMAIN cs |-> IF cs[i].e \in S THEN [cs[i] EXCEPT !.shut = TRUE] ELSE cs[i]]

\* NewGCPMultiEndpoint / UpdateMultiEndpoints
Configure(op, k, fd) ==
  /\ (op = "new") = ~alive
  /\ ~closed
  /\ LET o == Catalogue[k]
         inp == [op |-> op, mes |-> o.mes, def |-> o.def, faildial |-> fd]
         e0 == [BaseEv(op) EXCEPT !.mes = o.mes, !.def = o.def, !.faildial = fd]
         badDefault == o.def \notin Names(o.mes)
         badList == \E i \in DOMAIN o.mes : o.mes[i].eps = <<>>
         newEps == Mentioned(o.mes) \ pools
         dialFails == fd # 0 /\ fd <= Cardinality(newEps)
     IN
     IF badDefault \/ badList
     THEN \* rejected before anything is touched (a failed construction releases everything)
          /\ Commit([e0 EXCEPT !.res = "ERR", !.pools = SetToSeq(pools)], inp)
          /\ UNCHANGED <<mvars, pmes>>
     ELSE IF dialFails
     THEN \* the pools dialled before the failing dial stay (update) or are closed again (construction)
          \E S \in {T \in SUBSET newEps : Cardinality(T) = fd - 1} :
            LET dl == SetToSeq(S)
                made == [i \in DOMAIN dl |-> [e |-> dl[i], shut |-> (op = "new")]]
                cs2 == conns \o made
                failedAt == CHOOSE x \in newEps \ S : TRUE
            IN /\ conns' = cs2
               /\ pools' = IF op = "new" THEN {} ELSE pools \cup S
               /\ Commit([e0 EXCEPT !.res = "ERR", !.conns = cs2,
                                    !.dials = [i \in DOMAIN dl |-> [e |-> dl[i], ok |-> TRUE]] \o <<[e |-> failedAt, ok |-> FALSE]>>,
                                    !.pools = SetToSeq(IF op = "new" THEN {} ELSE pools \cup S)], inp)
               /\ UNCHANGED <<alive, closed, mes, def, up, cur, pmes, sev>>
     ELSE LET dl == SetToSeq(newEps)
              cs2 == CloseConns(conns, pools \ Mentioned(o.mes)) \o [i \in DOMAIN dl |-> [e |-> dl[i], shut |-> FALSE]]
              sev2 == sev \cap Mentioned(o.mes)      \* a severed pool that is still wanted is kept as it is; a dropped one is forgotten
              keptAvail == (up \ sev) \cap pools \cap Mentioned(o.mes)
              r0 == MechRoutes(cur, o.mes, keptAvail)
              r1 == MechRoutes(r0, o.mes, (up \ sev2) \cap Mentioned(o.mes))
          IN /\ sev' = sev2
             /\ alive' = TRUE /\ mes' = o.mes /\ def' = o.def /\ pools' = Mentioned(o.mes) /\ cur' = r1 /\ conns' = cs2 /\ pmes' = mes
             /\ Commit([e0 EXCEPT !.conns = cs2, !.dials = [i \in DOMAIN dl |-> [e |-> dl[i], ok |-> TRUE]],
                                  !.pools = SetToSeq(Mentioned(o.mes)), !.routes0 = r0, !.routes = r1], inp)
             /\ UNCHANGED <<closed, up>>

Flip(e, toUp) ==
  /\ (e \in up) # toUp
  /\ up' = IF toUp THEN up \cup {e} ELSE up \ {e}
  /\ LET r == IF alive /\ ~closed THEN MechRoutes(cur, mes, (up' \ sev) \cap pools) ELSE cur
         op == IF toUp THEN "up" ELSE "down"
     IN /\ cur' = r
        /\ Commit([BaseEv(op) EXCEPT !.e = e, !.routes0 = cur, !.routes = r, !.pools = SetToSeq(pools)], [op |-> op, e |-> e])
  /\ UNCHANGED <<alive, closed, mes, def, pools, conns, pmes, sev>>

\* the application closes the ClientConn it handed out through DialFunc for endpoint e (or the connection is closed under the
\* object in any other way): the pool stays, its monitor reports SHUTDOWN = unavailable, and closing it again later fails
Sever(e) ==
  /\ alive /\ ~closed /\ e \in pools \ sev
  /\ Cardinality({i \in DOMAIN hist : hist[i].op = "sever"}) < MaxSever
  /\ sev' = sev \cup {e}
  /\ conns' = CloseConns(conns, {e})
  /\ LET r == MechRoutes(cur, mes, (up \ sev') \cap pools)
     IN /\ cur' = r
        /\ Commit([BaseEv("sever") EXCEPT !.e = e, !.conns = conns', !.routes0 = cur, !.routes = r, !.pools = SetToSeq(pools)], [op |-> "sever", e |-> e])
  /\ UNCHANGED <<alive, closed, mes, def, pools, up, pmes>>

\* a call with the MultiEndpoint name n in its context ("" = none), unary (Invoke) or as a stream (NewStream): both go through pickConn
Rpc(n, st) ==
  /\ alive /\ ~closed
  /\ Cardinality({i \in DOMAIN hist : hist[i].op = "rpc"}) < MaxRpc
  /\ LET target == IF n # "" /\ n \in Names(mes) THEN n ELSE def
         S == {i \in DOMAIN cur : cur[i].name = target}
         e == cur[CHOOSE i \in S : TRUE].e
     IN Commit([BaseEv("rpc") EXCEPT !.name = n, !.stream = st, !.res = IF e \in up \ sev THEN "OK" ELSE "ERR", !.srv = IF e \in up \ sev THEN e ELSE "",
                                     !.pools = SetToSeq(pools)], [op |-> "rpc", name |-> n, stream |-> st])
  /\ UNCHANGED <<mvars, pmes>>

\* the clock advances: without recovery timeout / switching delay nothing is pending, routes stay
Tick(n) ==
  /\ alive /\ ~closed
  /\ Commit([BaseEv("tick") EXCEPT !.n = n, !.pools = SetToSeq(pools)], [op |-> "tick", n |-> n])
  /\ UNCHANGED <<mvars, pmes>>

Close ==
  /\ alive /\ ~closed
  /\ closed' = TRUE
  /\ conns' = [i \in DOMAIN conns |-> [conns[i] EXCEPT !.shut = TRUE]]
  /\ Commit([BaseEv("close") EXCEPT !.conns = conns', !.pools = SetToSeq(pools)], [op |-> "close"])
  /\ UNCHANGED <<alive, mes, def, pools, up, cur, pmes, sev>>

Next ==
  /\ Len(hist) < MaxDepth
  /\ \/ \E k \in OptSets, fd \in {0, 1, 2} : Configure(IF alive THEN "update" ELSE "new", k, fd)
     \/ \E e \in Endpoints, b \in BOOLEAN : Flip(e, b)
     \/ \E e \in Endpoints : Sever(e)
     \/ \E n \in {"", "m1", "m2", "zz"}, st \in BOOLEAN : Rpc(n, st)
     \/ \E n \in Ticks : Tick(n)
     \/ Close

Spec == Init /\ [][Next]_vars

AllOK == \A c \in GClauses(g, ev', g') : c.ok
PAll == [][AllOK]_vars
P15 == [][\A c \in {x \in GClauses(g, ev', g') : x.id \in {"C15_a", "C15_a2", "C15_b", "C15_c", "C15_d", "C15_r", "C15_t"}} : c.ok]_vars
P16 == [][\A c \in {x \in GClauses(g, ev', g') : x.id \in {"C16_a", "C16_b", "C16_c", "C16_d", "C16_e", "C16_f", "C16_g", "C16_h"}} : c.ok]_vars

TypeOK ==
  /\ alive /\ ~closed => Mentioned(mes) \subseteq pools
  /\ alive => Len(cur) = Cardinality(Names(mes))
GhostAgrees == alive /\ ~closed => (g.cur = cur /\ g.mes = mes /\ g.def = def /\ g.up \cap Endpoints = up /\ g.sev = sev)

\* the previously accepted option set is part of the view: two histories that reach the same mechanism state from different
\* configurations are both extended (a broken implementation may differ only along one of them, e.g. after a list lost its tail)
View == <<mvars, pmes>>
EmitBfs == PrintT(<<"SCRIPT", ToJson(hist)>>)
EmitSim == Len(hist) < MaxDepth \/ PrintT(<<"SCRIPT", ToJson(hist)>>)
=============================================================================
