------------------------------- MODULE Prober -------------------------------
(***************************************************************************)
(* C18: reference definitions for the Spanner prober helpers and the vector *)
(* space TLC enumerates for them.                                            *)
(*  backoff  : Backoff(base, max, n) as the step machine of the code over    *)
(*             values that stay exact (base = m * 2^9, at most 9 growth      *)
(*             steps), plus Bounded/Monotone on recorded sweeps              *)
(*  timing   : header-over-trailer precedence and first-gfet4t7-entry rule   *)
(*             over entry classes                                            *)
(*  flags    : acceptance by character class, resource-name segments, qps    *)
(*             classes                                                       *)
(***************************************************************************)
EXTENDS Integers, Sequences, FiniteSets, TLC, Json

\* ---------------------------------------------------------------- backoff
RECURSIVE Grow(_, _, _)
Grow(b, max, n) == IF b < max /\ n > 0 THEN Grow((b * 3) \div 2, max, n - 1) ELSE b
Backoff(base, max, n) == LET b == Grow(base, max, n) IN IF b > max THEN max ELSE b

Bases == {512, 1024, 1536}
Maxes == {512, 600, 1024, 1728, 5000, 39366, 100000}
Retries == 0..9
BackoffVecs == {[kind |-> "backoff", base |-> b, max |-> m, n |-> n] : b \in Bases, m \in {x \in Maxes : TRUE}, n \in Retries}

\* a recorded sweep: results (in microseconds) for retries 0..k of one (base, max) pair with base <= max
SweepOK(base, max, rs) == /\ \A i \in DOMAIN rs : rs[i] >= base /\ rs[i] <= max
                          /\ \A i \in DOMAIN rs : i > 1 => rs[i] >= rs[i-1]

\* ---------------------------------------------------------------- server-timing
EntryClasses == {"good", "good2", "bad", "other", "neg", "short", "short2", "alike", "empty", "prefixonly", "spaces"}
Lists == {<<>>} \cup {<<a>> : a \in EntryClasses} \cup {<<a, b>> : a \in EntryClasses, b \in EntryClasses}
TimingVecs == {[kind |-> "timing", hdr |-> h, trl |-> t] : h \in Lists, t \in Lists}

\* only entries that start with the full prefix "gfet4t7; dur=" are gfet4t7 entries; look-alikes and truncated entries are skipped
IsGfe(c) == c \in {"good", "good2", "bad", "neg", "prefixonly", "spaces"}
Millis(c) == CASE c = "good" -> 123 [] c = "good2" -> 7 [] c = "neg" -> -5 [] OTHER -> 0
FirstGfe(l) == LET S == {i \in DOMAIN l : IsGfe(l[i])} IN IF S = {} THEN 0 ELSE CHOOSE i \in S : \A j \in S : i <= j
Timing(h, t) ==
  LET src == IF h # <<>> THEN h ELSE t
      k == FirstGfe(src)
  IN IF src = <<>> \/ k = 0 \/ src[k] \in {"bad", "prefixonly", "spaces"} THEN [ok |-> FALSE, ms |-> 0] ELSE [ok |-> TRUE, ms |-> Millis(src[k])]

\* ---------------------------------------------------------------- flags
Chars == {"a", "Z", "7", "-", "_", ".", ":", "/", "!", " "}
ProjectOK(cs) == \A i \in DOMAIN cs : cs[i] \in {"a", "Z", "7", "-", "_", ".", ":"}
NameOK(cs) == \A i \in DOMAIN cs : cs[i] \in {"a", "Z", "7", "-", "_", "."}
Strs == {<<>>, <<"a">>, <<"a", "Z", "7">>} \cup {<<"a", c>> : c \in Chars} \cup {<<c, "a">> : c \in {"/", ":", ".", "-", "!"}} \cup {<<"a", "/", ".", ".", "/", "a">>}
QpsClasses == {"zero", "neg", "tiny", "nano", "small", "half", "one", "max", "over", "nan", "edge", "denorm", "pinf", "ninf"}
QpsOK(q) == q \in {"nano", "small", "half", "one", "max"}      \* 0 < qps <= 1000 and the probe interval is representable
ProbeTypes == {"noop", "stale_read", "strong_query", "stale_query", "dml", "read_write", "", "NOOP", "noop "}
TypeOK(t) == t \in {"noop", "stale_read", "strong_query", "stale_query", "dml", "read_write"}

FlagVecs ==
  {[kind |-> "flags", project |-> p, instance |-> i, database |-> d, icfg |-> <<"a">>, qps |-> "one", ptype |-> "noop"] : p \in Strs, i \in Strs, d \in {<<"a">>, <<"a", "/">>, <<"a", ".">>}}
  \cup {[kind |-> "flags", project |-> <<"a">>, instance |-> <<"a">>, database |-> <<"a">>, icfg |-> c, qps |-> q, ptype |-> t] :
          c \in {<<"a">>, <<"a", ":">>}, q \in QpsClasses, t \in ProbeTypes}
FlagsAccepted(v) == ProjectOK(v.project) /\ NameOK(v.instance) /\ NameOK(v.database) /\ NameOK(v.icfg) /\ QpsOK(v.qps) /\ TypeOK(v.ptype)

HashVecs == {[kind |-> "hash", size |-> s] : s \in {0, 1, 7, 1024}}

VARIABLE done
EmitAll ==
  /\ \A v \in BackoffVecs \cup TimingVecs \cup FlagVecs \cup HashVecs : PrintT(<<"VEC", ToJson(v)>>)
  /\ done = TRUE
NextNone == UNCHANGED done
=============================================================================
