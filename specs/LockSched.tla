----------------------------- MODULE LockSched -----------------------------
(***************************************************************************)
(* Schedules of a concurrent section of the pool at lock granularity.       *)
(*                                                                         *)
(* A section is a handful of operations (picks, completion callbacks, one   *)
(* serialised balancer callback ...) running as goroutines of the real      *)
(* code.  The harness stops every goroutine in front of each Lock/RLock     *)
(* statement and right after each Unlock/RUnlock (the "gates") and lets     *)
(* exactly one of them run from its gate to its next gate.  What a          *)
(* goroutine does between two gates is atomic with respect to the others,   *)
(* so the behaviours of the section are exactly the orders in which gates   *)
(* are passed, restricted by mutual exclusion.                              *)
(*                                                                         *)
(* Prof[p] is the lock profile of operation p: its sequence of lock events  *)
(* [a |-> "acq" | "rel", l |-> lock name, k |-> "W" | "R"] recorded from a  *)
(* solo run of the same operation in the same state (tools/conc.py writes   *)
(* prof.json).  The model passes gates under the locking rules of           *)
(* sync.Mutex / sync.RWMutex and enumerates every schedule with at most     *)
(* MaxPre preemptions (a switch away from an operation that could have      *)
(* continued).  Each terminal state - everything finished, or nothing       *)
(* enabled: a lock-order deadlock of the profiles - prints its schedule;    *)
(* the harness replays it on the real code.  A model deadlock is a          *)
(* prediction, never a verdict: the verdict is the real goroutines parked   *)
(* on each other's mutexes (result HANG, C06).                              *)
(***************************************************************************)
EXTENDS Integers, Sequences, FiniteSets, TLC, Json

CONSTANTS MaxPre        \* preemption bound

Prof == JsonDeserialize("prof.json")
Procs == DOMAIN Prof

VARIABLES pc,      \* pc[p]: 0 = not launched, i = parked at the gate Prof[p][i], Len+1 = finished
          held,    \* set of [p, l, k]: locks held
          cur,     \* operation that took the last step (0 at the start)
          pre,     \* preemptions so far
          hist     \* the schedule: sequence of operation numbers

vars == <<pc, held, cur, pre, hist>>

Fin(p) == Len(Prof[p]) + 1
Ev(p, i) == Prof[p][i]

\* Every lock event of a profile is a gate: the operation is parked in front of an acquisition (acq) or right after a
\* release (rel).  A step lets it pass the gate it is parked at and run to its next gate.
Free(p, l, k) == IF k = "W" THEN \A h \in held : h.l # l
                 ELSE \A h \in held : h.l = l => (h.k = "R" /\ h.p # p)      \* sync.RWMutex: no recursive read locking

Enabled(p) == \/ pc[p] = 0
              \/ (pc[p] \in 1..Len(Prof[p]) /\ (Ev(p, pc[p]).a = "rel" \/ Free(p, Ev(p, pc[p]).l, Ev(p, pc[p]).k)))
Done(p) == pc[p] = Fin(p)

Init == /\ pc = [p \in Procs |-> 0]
        /\ held = {}
        /\ cur = 0
        /\ pre = 0
        /\ hist = <<>>

Step(p) ==
  /\ Enabled(p)
  /\ LET cost == IF cur # 0 /\ cur # p /\ ~Done(cur) /\ Enabled(cur) THEN 1 ELSE 0 IN
     /\ pre + cost <= MaxPre
     /\ pre' = pre + cost
  /\ IF pc[p] = 0
     THEN /\ pc' = [pc EXCEPT ![p] = IF Len(Prof[p]) = 0 THEN Fin(p) ELSE 1]     \* runs up to its first acquisition
          /\ held' = held
     ELSE LET i == pc[p]
              e == Ev(p, i)
              h1 == IF e.a = "acq" THEN held \cup {[p |-> p, l |-> e.l, k |-> e.k]} ELSE held
              j == i + 1
          IN IF j > Len(Prof[p])
             THEN pc' = [pc EXCEPT ![p] = Fin(p)] /\ held' = h1
             ELSE IF Ev(p, j).a = "rel"
             THEN \* the next gate is behind a release: the lock is given up during this step
                  pc' = [pc EXCEPT ![p] = j] /\ held' = {h \in h1 : ~(h.p = p /\ h.l = Ev(p, j).l)}
             ELSE pc' = [pc EXCEPT ![p] = j] /\ held' = h1
  /\ cur' = p
  /\ hist' = Append(hist, p)

Terminal == \A p \in Procs : Done(p) \/ ~Enabled(p)
Dead == Terminal /\ \E p \in Procs : ~Done(p)

Next == \E p \in Procs : Step(p)
Spec == Init /\ [][Next]_vars

\* a switch that the preemption bound forbids is not a deadlock: only states in which no operation could step at any cost
Emit == Terminal => PrintT(<<"SCHED", ToJson([s |-> hist, dead |-> Dead, pre |-> pre])>>)
\* every lock that is held is held by exactly one writer or by readers only (sanity of the profiles and of the rules)
Exclusion == \A h1 \in held, h2 \in held : (h1.l = h2.l /\ h1 # h2) => (h1.k = "R" /\ h2.k = "R")
=============================================================================
