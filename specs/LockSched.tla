----------------------------- MODULE LockSched -----------------------------
(***************************************************************************)
(* Schedules of a concurrent section of the pool at lock granularity.       *)
(*                                                                         *)
(* A section is a handful of operations (picks, completion callbacks, one   *)
(* serialised balancer callback ...) running as goroutines of the real      *)
(* code.  The harness stops every goroutine in front of each Lock/RLock     *)
(* statement (a "gate") and lets exactly one of them run from its gate to   *)
(* its next gate.  What a goroutine does between two gates is atomic with   *)
(* respect to the others, so the behaviours of the section are exactly the  *)
(* orders in which gates are passed, restricted by mutual exclusion.        *)
(*                                                                         *)
(* Prof[p] is the lock profile of operation p: its sequence of lock events  *)
(* [a |-> "acq" | "rel", l |-> lock name, k |-> "W" | "R"] recorded from a  *)
(* solo run of the same operation in the same state (tools/conc.py writes   *)
(* prof.json).  The model passes gates under the locking rules of           *)
(* sync.Mutex / sync.RWMutex and enumerates every schedule with at most     *)
(* MaxPre preemptions (a switch away from an operation that could have      *)
(* continued).  Each terminal state - everything finished, or nothing       *)
(* enabled: a lock-order deadlock of the profiles - prints its schedule;    *)
(* the harness replays it on the real code.  A model deadlock is a          *)
(* prediction, never a verdict: the verdict is the real goroutines parked   *)
(* on each other's mutexes (result HANG, C06).                              *)
(***************************************************************************)
EXTENDS Integers, Sequences, FiniteSets, TLC, Json

CONSTANTS MaxPre        \* preemption bound

Prof == JsonDeserialize("prof.json")
Procs == DOMAIN Prof

VARIABLES pc,      \* pc[p]: 0 = not launched, i = parked at the gate Prof[p][i] (an acq), Len+1 = finished
          held,    \* set of [p, l, k]: locks held
          cur,     \* operation that took the last step (0 at the start)
          pre,     \* preemptions so far
          hist     \* the schedule: sequence of operation numbers

vars == <<pc, held, cur, pre, hist>>

Fin(p) == Len(Prof[p]) + 1
\* index of the first acq event of p at or after i (Fin(p) if none)
NextGate(p, i) == LET S == {j \in i..Len(Prof[p]) : Prof[p][j].a = "acq"}
                  IN IF S = {} THEN Fin(p) ELSE CHOOSE j \in S : \A x \in S : j <= x
\* the releases between event i (exclusive) and the next gate
RelBetween(p, i) == {Prof[p][j].l : j \in {x \in (i+1)..(NextGate(p, i+1) - 1) : Prof[p][x].a = "rel"}}

Free(p, l, k) == IF k = "W" THEN \A h \in held : h.l # l
                 ELSE \A h \in held : h.l = l => (h.k = "R" /\ h.p # p)      \* sync.RWMutex: no recursive read locking

Enabled(p) == \/ pc[p] = 0
              \/ (pc[p] \in 1..Len(Prof[p]) /\ Free(p, Prof[p][pc[p]].l, Prof[p][pc[p]].k))
Done(p) == pc[p] = Fin(p)

Init == /\ pc = [p \in Procs |-> 0]
        /\ held = {}
        /\ cur = 0
        /\ pre = 0
        /\ hist = <<>>

Step(p) ==
  /\ Enabled(p)
  /\ LET cost == IF cur # 0 /\ cur # p /\ ~Done(cur) /\ Enabled(cur) THEN 1 ELSE 0 IN
     /\ pre + cost <= MaxPre
     /\ pre' = pre + cost
  /\ IF pc[p] = 0
     THEN /\ pc' = [pc EXCEPT ![p] = NextGate(p, 1)]
          /\ held' = held
     ELSE LET i == pc[p]
              e == Prof[p][i]
              rels == RelBetween(p, i)
          IN /\ pc' = [pc EXCEPT ![p] = NextGate(p, i + 1)]
             /\ held' = {h \in held \cup {[p |-> p, l |-> e.l, k |-> e.k]} : ~(h.p = p /\ h.l \in rels)}
  /\ cur' = p
  /\ hist' = Append(hist, p)

Terminal == \A p \in Procs : Done(p) \/ ~Enabled(p)
Dead == Terminal /\ \E p \in Procs : ~Done(p)

Next == \E p \in Procs : Step(p)
Spec == Init /\ [][Next]_vars

\* a switch that the preemption bound forbids is not a deadlock: only states in which no operation could step at any cost
Emit == Terminal => PrintT(<<"SCHED", ToJson([s |-> hist, dead |-> Dead, pre |-> pre])>>)
\* every lock that is held is held by exactly one writer or by readers only (sanity of the profiles and of the rules)
Exclusion == \A h1 \in held, h2 \in held : (h1.l = h2.l /\ h1 # h2) => (h1.k = "R" /\ h2.k = "R")
=============================================================================
