INIT TInit
NEXT TNext
CHECK_DEADLOCK FALSE
