-------------------------------- MODULE ME --------------------------------
(***************************************************************************)
(* Mechanism layer of grpcgcp/multiendpoint/multiendpoint.go: the endpoint  *)
(* map with priorities and statuses, `current', the single shared `future', *)
(* and the timers created through timeAfterFunc, in creation order:          *)
(*   rec   recovery timer of a listed endpoint object (valid)               *)
(*   orph  recovery timer whose endpoint object was removed from the map    *)
(*   dead  recovery timer that was due when its endpoint changed state       *)
(*         (Stop() came too late; the callback sees an outdated lastChange) *)
(*   sw    delayed switch; reads `future' when it runs                       *)
(* Times are relative (remaining ticks), so the model is finite.            *)
(* Every action produces the event the harness would record and advances    *)
(* the ghost of MEGhost; TLC checks mechanism => clauses.                   *)
(***************************************************************************)
EXTENDS MEGhost, Json

CONSTANTS Ids,        \* endpoint names
          R, D,       \* recovery timeout and switching delay in ticks
          NInit,      \* the initial endpoint list is the first NInit names of Order
          MaxTimers, MaxDepth, Ticks, UseUnknown

VARIABLES list, st, cur, future, timers, g, ev, hist, nowt
mvars == <<list, st, cur, future, timers>>
vars == <<mvars, g, ev, hist, nowt>>

Order == <<"a", "b", "c", "d">>
InitList == SubSeq(Order, 1, NInit)

Lists == {<<>>} \cup {<<a>> : a \in Ids} \cup {<<a, b>> : a \in Ids, b \in Ids} \cup {<<a, b, c>> : a \in Ids, b \in Ids, c \in Ids}
Distinct(l) == \A i, j \in DOMAIN l : i # j => l[i] # l[j]
ValidLists == {l \in Lists : Distinct(l)}

InL(l, e) == e \in SeqSet(l)
P(l, e) == Idx(l, e)

\* timers due (remaining = 0), in creation order
DueIdx(ts) == LET RECURSIVE F(_)
                  F(i) == IF i > Len(ts) THEN <<>> ELSE (IF ts[i].rem = 0 THEN <<i>> ELSE <<>>) \o F(i + 1)
              IN F(1)
Remove(ts, i) == SubSeq(ts, 1, i - 1) \o SubSeq(ts, i + 1, Len(ts))

\* maybeUpdateCurrent: returns [cur, future, timers]
Update(l, s, c, f, ts) ==
  LET exists == InL(l, c)
      av == {e \in SeqSet(l) : s[e] = "A"}
      topA == IF av = {} THEN "" ELSE CHOOSE e \in av : \A x \in av : P(l, e) <= P(l, x)
  IN IF exists /\ s[c] = "R" /\ (topA = "" \/ P(l, topA) > P(l, c)) THEN [cur |-> c, future |-> f, timers |-> ts]
     ELSE IF topA # ""
     THEN \* switchFromTo(c, topA)
          IF c = topA THEN [cur |-> c, future |-> f, timers |-> ts]
          ELSE IF D = 0 \/ ~exists \/ s[c] = "U" THEN [cur |-> topA, future |-> f, timers |-> ts]
          ELSE [cur |-> c, future |-> topA, timers |-> Append(ts, [kind |-> "sw", e |-> "", rem |-> D])]
     ELSE IF ~exists THEN [cur |-> l[1], future |-> f, timers |-> ts]
     ELSE [cur |-> c, future |-> f, timers |-> ts]

\* setState on a listed endpoint: its valid recovery timer (if any) is stopped, or is already running
StopRec(ts, e) == LET RECURSIVE F(_)
                      F(i) == IF i > Len(ts) THEN <<>>
                              ELSE (IF ts[i].kind = "rec" /\ ts[i].e = e
                                    THEN (IF ts[i].rem > 0 THEN <<>> ELSE <<[ts[i] EXCEPT !.kind = "dead"]>>)
                                    ELSE <<ts[i]>>) \o F(i + 1)
                  IN F(1)

BaseEv(op) == [op |-> op, eps |-> <<>>, e |-> "", b |-> FALSE, n |-> 0, k |-> 0, res |-> "OK", cur |-> "", due |-> 0, live |-> 0, now |-> nowt]

Commit(e, inp) ==
  \E ee \in {e} :
    /\ ev' = ee
    /\ g' = MEGhostNext(g, ee)
    /\ hist' = Append(hist, inp)

Fin(e, c, ts) == [e EXCEPT !.cur = c, !.due = Len(DueIdx(ts)), !.live = Len(ts)]

NewSt == IF R > 0 THEN "R" ELSE "U"

Init ==
  /\ list = InitList
  /\ st = [e \in Ids |-> IF e \in SeqSet(InitList) THEN NewSt ELSE "-"]
  /\ cur = InitList[1]
  /\ future = ""
  /\ timers = IF R > 0 THEN [i \in DOMAIN InitList |-> [kind |-> "rec", e |-> InitList[i], rem |-> R]] ELSE <<>>
  /\ nowt = 0
  /\ ev = [op |-> "new", cfg |-> [eps |-> InitList, r |-> R, d |-> D], eps |-> InitList, e |-> "", b |-> FALSE, n |-> 0, k |-> 0,
           res |-> "OK", cur |-> InitList[1], due |-> 0, live |-> (IF R > 0 THEN Len(InitList) ELSE 0), now |-> 0]
  /\ g = MEGhostNext(MEGhostInit, ev)
  /\ hist = <<>>

SetEndpoints(l) ==
  /\ nowt' = nowt
  /\ IF l = <<>>
     THEN /\ Commit(Fin([BaseEv("set") EXCEPT !.res = "ERR"], cur, timers), [op |-> "set", eps |-> l])
          /\ UNCHANGED mvars
     ELSE LET removed == SeqSet(list) \ SeqSet(l)
              added == SeqSet(l) \ SeqSet(list)
              ts1 == [i \in DOMAIN timers |-> IF timers[i].kind = "rec" /\ timers[i].e \in removed THEN [timers[i] EXCEPT !.kind = "orph"] ELSE timers[i]]
              \* new endpoints in list order get their recovery timers
              newts == LET RECURSIVE F(_)
                           F(i) == IF i > Len(l) THEN <<>>
                                   ELSE (IF l[i] \in added /\ R > 0 THEN <<[kind |-> "rec", e |-> l[i], rem |-> R]>> ELSE <<>>) \o F(i + 1)
                       IN F(1)
              ts2 == ts1 \o newts
              st1 == [e \in Ids |-> IF e \in added THEN NewSt ELSE IF e \in removed THEN "-" ELSE st[e]]
              u == Update(l, st1, cur, future, ts2)
          IN /\ Len(u.timers) <= MaxTimers
             /\ list' = l /\ st' = st1 /\ cur' = u.cur /\ future' = u.future /\ timers' = u.timers
             /\ Commit(Fin([BaseEv("set") EXCEPT !.eps = l], u.cur, u.timers), [op |-> "set", eps |-> l])

SetAvail(e, b) ==
  /\ nowt' = nowt
  /\ LET known == InL(list, e)
         toA == known /\ b
         toDown == known /\ ~b /\ st[e] = "A"
         st1 == IF toA THEN [st EXCEPT ![e] = "A"]
                ELSE IF toDown THEN [st EXCEPT ![e] = IF R = 0 THEN "U" ELSE "R"] ELSE st
         ts1 == IF toA \/ toDown THEN StopRec(timers, e) ELSE timers
         ts2 == IF toDown /\ R > 0 THEN Append(ts1, [kind |-> "rec", e |-> e, rem |-> R]) ELSE ts1
         u == Update(list, st1, cur, future, ts2)
     IN /\ Len(u.timers) <= MaxTimers
        /\ st' = st1 /\ cur' = u.cur /\ future' = u.future /\ timers' = u.timers /\ list' = list
        /\ Commit(Fin([BaseEv("avail") EXCEPT !.e = e, !.b = b], u.cur, u.timers), [op |-> "avail", e |-> e, b |-> b])

Tick(n) ==
  /\ \E i \in DOMAIN timers : timers[i].rem > 0     \* advancing the clock matters only while some timer is pending
  /\ nowt' = nowt + n
  /\ timers' = [i \in DOMAIN timers |-> [timers[i] EXCEPT !.rem = IF @ > n THEN @ - n ELSE 0]]
  /\ Commit(Fin([BaseEv("tick") EXCEPT !.n = n, !.now = nowt + n], cur, timers'), [op |-> "tick", n |-> n])
  /\ UNCHANGED <<list, st, cur, future>>

Fire(k) ==
  /\ k \in DOMAIN DueIdx(timers)
  /\ nowt' = nowt
  /\ LET i == DueIdx(timers)[k]
         t == timers[i]
         ts1 == Remove(timers, i)
         e0 == [BaseEv("fire") EXCEPT !.k = k]
         inp == [op |-> "fire", k |-> k]
     IN CASE t.kind = "rec" ->
               LET st1 == [st EXCEPT ![t.e] = "U"]
                   u == Update(list, st1, cur, future, ts1)
               IN /\ Len(u.timers) <= MaxTimers
                  /\ st' = st1 /\ cur' = u.cur /\ future' = u.future /\ timers' = u.timers /\ list' = list
                  /\ Commit(Fin(e0, u.cur, u.timers), inp)
          [] t.kind = "orph" ->
               LET u == Update(list, st, cur, future, ts1)
               IN /\ Len(u.timers) <= MaxTimers
                  /\ cur' = u.cur /\ future' = u.future /\ timers' = u.timers /\ UNCHANGED <<list, st>>
                  /\ Commit(Fin(e0, u.cur, u.timers), inp)
          [] t.kind = "dead" ->
               /\ timers' = ts1 /\ UNCHANGED <<list, st, cur, future>>
               /\ Commit(Fin(e0, cur, ts1), inp)
          [] t.kind = "sw" ->
               LET go == /\ InL(list, future) /\ st[future] = "A"
                         /\ ~(InL(list, cur) /\ st[cur] # "U" /\ P(list, cur) < P(list, future))
                   c1 == IF go THEN future ELSE cur
               IN /\ cur' = c1 /\ timers' = ts1 /\ UNCHANGED <<list, st, future>>
                  /\ Commit(Fin(e0, c1, ts1), inp)

Next ==
  /\ Len(hist) < MaxDepth
  /\ \/ \E l \in ValidLists : SetEndpoints(l)
     \/ \E e \in Ids, b \in BOOLEAN : SetAvail(e, b)       \* names not in the list are unknown endpoints
     \/ \E n \in Ticks : Tick(n)
     \/ \E k \in 1..MaxTimers : Fire(k)

Spec == Init /\ [][Next]_vars

AllOK == \A c \in MEClauses(g, ev', g') : c.ok
PAll == [][AllOK]_vars
Fam13 == [][\A c \in {x \in MEClauses(g, ev', g') : x.id \in {"C13_a", "C13_b", "C13_c", "C13_d", "C13_e", "C13_f", "C13_g"}} : c.ok]_vars
Fam14 == [][\A c \in {x \in MEClauses(g, ev', g') : x.id \in {"C14_a", "C14_b", "C14_c", "C14_d", "C14_e"}} : c.ok]_vars

TypeOK ==
  /\ cur \in SeqSet(list)
  /\ \A e \in Ids : (st[e] = "-") <=> ~InL(list, e)
  /\ \A e \in SeqSet(list) : (st[e] = "R") <=> (\E i \in DOMAIN timers : timers[i].kind = "rec" /\ timers[i].e = e)
GhostAgrees ==
  /\ g.list = list
  /\ \A e \in SeqSet(list) : (StOf(g, e).s = "A") <=> (st[e] = "A")
  /\ \A e \in SeqSet(list) : st[e] = "U" => Eff(g, e) = "U"

\* liveness (C14 convergence): if inputs stop and timers keep firing, Current() becomes the top available endpoint
EnvQuiet == [][\E k \in 1..MaxTimers : Fire(k) \/ \E n \in Ticks : Tick(n)]_vars

View == <<list, st, cur, future, timers, [i \in DOMAIN g.st |-> [s |-> g.st[i].s, left |-> IF g.st[i].s = "R" /\ g.st[i].until > g.now THEN g.st[i].until - g.now ELSE 0]]>>
EmitBfs == PrintT(<<"SCRIPT", ToJson(hist)>>)
EmitSim == Len(hist) < MaxDepth \/ PrintT(<<"SCRIPT", ToJson(hist)>>)
=============================================================================
