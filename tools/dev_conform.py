#!/usr/bin/env python3
import sys, os, json, time, shutil
sys.path.insert(0, os.path.dirname(os.path.abspath(__file__)))
import vlib, pool
fam = sys.argv[1]; depth = int(sys.argv[2])
s = vlib.Scratch('conf')
try:
    b = pool.build_pool_harness(s)
    st, scripts, probs = pool.model_runs(s, fam, depth, 4, 25, 1, 16, sim_workers=16)
    inp, tr = pool.run_scripts(s, b, scripts[:1500], fam)
    r = pool.conform(s, fam, tr)
    print(fam, len(scripts), r)
finally:
    s.cleanup()
