#!/usr/bin/env python3
"""Pool pipeline (C01-C09, C17 pool part, C20):
   TLC on specs/Pool.tla (mechanism => clauses; script generation)
   -> scripts -> real gcpBalancer/gcpPicker through the injected harness -> recorded trace
   -> TLC on specs/PoolTrace.tla (clauses of PoolGhost on the real trace) -> verdict."""
import json, os, random, shutil, sys, time

sys.path.insert(0, os.path.dirname(os.path.abspath(__file__)))
import vlib
from vlib import Infra

ALL_STATES = ["IDLE", "CONNECTING", "READY", "TF", "SHUTDOWN"]
LEGAL_STATES = ["CONNECTING", "READY", "TF", "IDLE"]

BASE = dict(CfgMin=1, CfgMax=2, CfgWm=1, CfgFb=False, CfgUc=0, CfgUms=0, CfgRr=False,
            Keys=[1, 2], AVs=[1, 2], States=ALL_STATES, Methods=["PLAIN", "BIND", "BOUND", "UNBIND"],
            Outs=["OK", "ERR"], Dls=[0], Advs=[], CfgKinds=["first"],
            MaxConn=3, MaxCalls=3, MaxPub=8, MaxDepth=6, StalePick=1,
            UseFail=False, UseUnknown=False, UseBadReq=False, Pre=0)


def fam(**kw):
    d = dict(BASE)
    d.update(kw)
    return d


FAMILIES = {
    # affinity, least-busy placement, growth
    "affinity": fam(),
    "affinity1": fam(Keys=[1], States=["READY", "TF", "SHUTDOWN"], AVs=[1], Methods=["BIND", "BOUND", "UNBIND"]),
    "growth": fam(CfgMin=1, CfgMax=3, CfgWm=1, Keys=[1], AVs=[1], Methods=["PLAIN"], States=["CONNECTING", "READY", "TF", "SHUTDOWN"],
                  MaxConn=4, MaxCalls=4, StalePick=2),
    "growth2": fam(CfgMin=2, CfgMax=2, CfgWm=2, Keys=[1], AVs=[1], Methods=["PLAIN", "BIND"], States=["READY", "TF", "SHUTDOWN"], MaxCalls=5),
    # connectivity aggregation: every report sequence, unknown connections
    "states": fam(CfgMin=2, CfgMax=2, Keys=[1], AVs=[1], Methods=["PLAIN"], Outs=["OK"], UseUnknown=True, MaxCalls=1, StalePick=3),
    # unresponsive detection and refresh
    "refresh": fam(CfgUc=1, CfgUms=2, Keys=[1], AVs=[1, 2], States=["READY", "TF", "SHUTDOWN"], Methods=["PLAIN", "BIND", "BOUND"],
                   Outs=["OK", "CDE", "SDE"], Dls=[0, 1], Advs=[3], MaxConn=4, MaxCalls=3),
    "refresh2": fam(CfgUc=2, CfgUms=3, Keys=[1], AVs=[1], States=["READY", "CONNECTING"], Methods=["PLAIN"],
                    Outs=["OK", "ERR", "CDE"], Dls=[0, 1, 5], Advs=[2, 4], MaxConn=4, MaxCalls=4, StalePick=0),
    "refreshfail": fam(CfgUc=1, CfgUms=2, Keys=[1], AVs=[1], States=["READY"], Methods=["PLAIN"], Outs=["OK", "CDE"], Dls=[1], Advs=[3],
                       MaxConn=4, UseFail=True, StalePick=0),
    # fallback
    "fallback": fam(CfgMin=2, CfgMax=2, CfgFb=True, Keys=[1], AVs=[1], States=["READY", "TF", "CONNECTING"],
                    Methods=["PLAIN", "BIND", "BOUND", "UNBIND"], Outs=["OK"], MaxCalls=4, StalePick=2),
    "fallbackrefresh": fam(CfgMin=2, CfgMax=2, CfgFb=True, CfgUc=1, CfgUms=2, Keys=[1], AVs=[1], States=["READY", "TF"],
                           Methods=["BIND", "BOUND"], Outs=["OK", "CDE"], Dls=[0, 1], Advs=[3], MaxConn=4, MaxCalls=3),
    # round robin
    "rr": fam(CfgMin=2, CfgMax=3, CfgRr=True, Keys=[1], AVs=[1], States=["READY", "TF"], Methods=["PLAIN", "BIND", "BOUND"],
              Outs=["OK"], Dls=[0, 2], Advs=[3], MaxConn=3, MaxCalls=5, StalePick=0),
    "rrrefresh": fam(CfgMin=2, CfgMax=2, CfgRr=True, CfgUc=1, CfgUms=2, Keys=[1], AVs=[1], States=["READY", "TF"], Methods=["BIND"],
                     Outs=["OK", "CDE"], Dls=[0, 1], Advs=[3], MaxConn=4, MaxCalls=4, StalePick=0),
    # faults: empty resolver results, failing factory, unknown connections, malformed requests
    "faults": fam(Keys=[1], AVs=[0, 1], States=["READY", "SHUTDOWN"], Methods=["PLAIN", "BIND", "BOUND", "UNBIND"], Outs=["OK"],
                  UseFail=True, UseUnknown=True, UseBadReq=True, MaxCalls=2),
    "faultsfb": fam(CfgMin=2, CfgFb=True, CfgWm=1, Keys=[1], AVs=[0, 1], States=["READY", "TF", "SHUTDOWN"],
                    Methods=["PLAIN", "BIND", "BOUND"], Outs=["OK"], UseFail=True, UseBadReq=True, MaxCalls=3, StalePick=3),
    # configuration defaults and immutability
    "config0": fam(CfgMin=0, CfgMax=0, CfgWm=0, Keys=[1], AVs=[1], States=["READY", "TF"], Methods=["PLAIN", "BIND", "BOUND", "NOAFF", "BOUND2"],
                   Outs=["OK"], CfgKinds=["first", "none", "other", "bad"], MaxConn=5, MaxCalls=3, StalePick=0),
    "config1": fam(CfgMin=2, CfgMax=0, CfgWm=1, Keys=[1], AVs=[1, 2], States=["READY"], Methods=["PLAIN", "BIND", "BOUND2", "UNBIND"],
                   Outs=["OK"], CfgKinds=["first", "other", "none"], MaxConn=5, MaxCalls=3, StalePick=0),
    # resolver fan-out
    "resolver": fam(CfgUc=1, CfgUms=2, Keys=[1], AVs=[0, 1, 2], States=["READY", "SHUTDOWN"], Methods=["PLAIN"], Outs=["OK", "CDE"],
                    Dls=[1], Advs=[3], MaxConn=4, MaxCalls=2, StalePick=0),
    # exploration from an established pool (deterministic preamble, then every history of the given length)
    "deep-aff": fam(CfgMin=2, CfgMax=2, CfgWm=2, Keys=[1], AVs=[1], States=["READY", "TF"], Methods=["BIND", "BOUND", "UNBIND"],
                    Outs=["OK", "ERR"], MaxCalls=4, StalePick=1, Pre=4),
    "deep-affref": fam(CfgMin=1, CfgMax=1, CfgWm=5, CfgUc=1, CfgUms=2, Keys=[1], AVs=[1], States=["READY"], Methods=["PLAIN", "BIND", "BOUND"],
                       Outs=["OK", "CDE"], Dls=[0, 1], Advs=[3], MaxConn=3, MaxCalls=4, StalePick=0, Pre=1),
    "deep-refbound": fam(CfgMin=1, CfgMax=1, CfgWm=5, CfgUc=1, CfgUms=2, Keys=[1], AVs=[1], States=["READY", "TF"], Methods=["PLAIN", "BOUND", "UNBIND"],
                         Outs=["OK", "CDE"], Dls=[0, 1], Advs=[3], MaxConn=3, MaxCalls=5, StalePick=0, Pre=3),
    "deep-load": fam(CfgMin=3, CfgMax=3, CfgWm=100, Keys=[1], AVs=[1], States=["READY"], Methods=["PLAIN"], Outs=["OK"], MaxConn=3, MaxCalls=7,
                     StalePick=0, Pre=5),
    "deep-fb": fam(CfgMin=2, CfgMax=2, CfgWm=1, CfgFb=True, Keys=[1], AVs=[1], States=["READY", "TF", "IDLE"], Methods=["PLAIN", "BOUND"],
                   Outs=["OK"], MaxConn=2, MaxCalls=4, StalePick=1, Pre=4),
    "deep-fb2": fam(CfgMin=2, CfgMax=2, CfgWm=3, CfgFb=True, Keys=[1], AVs=[], CfgKinds=[], States=["READY"], Methods=["BIND", "BOUND", "UNBIND"],
                    Outs=["OK"], MaxConn=2, MaxCalls=6, StalePick=0, Pre=7),
    "deep-fb3": fam(CfgMin=2, CfgMax=2, CfgWm=3, CfgFb=True, Keys=[1], AVs=[], CfgKinds=[], States=["READY", "TF"], Methods=["BIND", "BOUND", "UNBIND"],
                    Outs=["OK"], MaxConn=2, MaxCalls=7, StalePick=0, Pre=8),
    # minSize above maxSize: the pool starts with minSize channels and must never grow
    "minmax": fam(CfgMin=3, CfgMax=2, CfgWm=1, Keys=[1], AVs=[1], States=["READY", "TF"], Methods=["PLAIN"], Outs=["OK"], MaxConn=5, MaxCalls=6,
                  StalePick=1, Pre=5),
    "deep-fb4": fam(CfgMin=2, CfgMax=2, CfgWm=3, CfgFb=True, CfgUc=1, CfgUms=2, Keys=[1], AVs=[], CfgKinds=[], States=["READY", "TF"], Methods=["BOUND", "PLAIN"],
                    Outs=["OK"], Dls=[0], Advs=[], MaxConn=4, MaxCalls=5, StalePick=0, Pre=9),
    # three channels: the home fails, the stand-in fails or is shut down, the third one must take over
    "deep-fb5": fam(CfgMin=3, CfgMax=3, CfgWm=100, CfgFb=True, Keys=[1], AVs=[], CfgKinds=[], States=["READY", "TF", "SHUTDOWN"], Methods=["BOUND"],
                    Outs=["OK"], Dls=[0], Advs=[], MaxConn=3, MaxCalls=5, StalePick=0, Pre=10),
    "deep-refresh": fam(CfgMin=1, CfgMax=2, CfgWm=1, CfgUc=1, CfgUms=2, Keys=[1], AVs=[1, 2], States=["READY", "TF", "SHUTDOWN"], Methods=["PLAIN"],
                        Outs=["OK", "CDE"], Dls=[0, 1], Advs=[3], MaxConn=4, MaxCalls=3, StalePick=0, Pre=6),
    "deep-ref2": fam(CfgMin=1, CfgMax=1, CfgWm=9, CfgUc=2, CfgUms=2, Keys=[1], AVs=[], States=["READY"], Methods=["PLAIN"], Outs=["OK", "CDE"],
                     Dls=[1, 3], Advs=[3], CfgKinds=[], MaxConn=2, MaxCalls=4, StalePick=0, Pre=1),
    "deep-rr": fam(CfgMin=3, CfgMax=3, CfgWm=100, CfgRr=True, Keys=[1], AVs=[1], States=["READY", "TF"], Methods=["BIND", "PLAIN"], Outs=["OK"],
                   Dls=[0, 2], Advs=[3], MaxConn=3, MaxCalls=6, StalePick=0, Pre=5),
    # everything on (simulation only)
    "spanner": fam(CfgMin=2, CfgMax=3, CfgWm=2, CfgFb=True, CfgUc=1, CfgUms=2, CfgRr=True, Keys=[1, 2], AVs=[1, 2],
                   States=ALL_STATES, Methods=["PLAIN", "BIND", "BOUND", "UNBIND"], Outs=["OK", "ERR", "CDE", "SDE"], Dls=[0, 1, 3], Advs=[3],
                   MaxConn=6, MaxCalls=8, MaxPub=30, StalePick=2, UseFail=True, UseUnknown=True, UseBadReq=True),
}

# which families decide which property (first ones are the quick tier)
PROP_FAMILIES = {
    "C01": ["deep-aff", "deep-affref", "deep-fb3", "deep-fb2", "deep-fb4", "affinity1", "refresh", "deep-refbound", "affinity", "fallbackrefresh", "spanner"],
    "C02": ["deep-load", "growth2", "deep-fb3", "affinity", "refresh", "deep-affref", "rr", "spanner"],
    "C03": ["growth", "growth2", "minmax", "faults", "refresh", "deep-refresh", "spanner"],
    "C04": ["states", "refresh", "deep-refresh", "faults", "spanner"],
    "C05": ["faults", "deep-refresh", "faultsfb", "refreshfail", "deep-refbound", "spanner"],
    "C06": ["faultsfb", "faults", "rr", "refreshfail", "deep-rr", "spanner"],
    "C07": ["deep-ref2", "deep-refresh", "refresh2", "refresh", "refreshfail", "deep-affref", "rrrefresh", "spanner"],
    "C08": ["deep-fb", "deep-fb3", "deep-fb4", "deep-fb5", "deep-fb2", "fallback", "fallbackrefresh", "faultsfb", "spanner"],
    "C09": ["deep-rr", "rr", "rrrefresh", "spanner"],
    "C17": ["config0", "config1"],
    "C20": ["resolver", "deep-refresh", "refresh", "faults", "spanner"],
}

PROP_OF_CLAUSE = lambda cid: cid.split("_")[0]


def tla_val(v):
    if isinstance(v, bool):
        return "TRUE" if v else "FALSE"
    if isinstance(v, int):
        return str(v)
    if isinstance(v, str):
        return '"%s"' % v
    if isinstance(v, (list, tuple, set)):
        return "{" + ", ".join(tla_val(x) for x in v) + "}"
    raise ValueError(v)


def write_cfg(path, consts, mode, props=None):
    lines = ["CONSTANTS"]
    for k, v in consts.items():
        lines.append(" %s = %s" % (k, tla_val(v)))
    lines += ["INIT Init", "NEXT Next", "CHECK_DEADLOCK FALSE"]
    if mode == "bfs":
        lines += ["VIEW View", "INVARIANTS TypeOK GhostAgrees EmitBfs"]
    elif mode == "bfs-noemit":
        lines += ["VIEW View", "INVARIANTS TypeOK GhostAgrees"]
    else:
        lines += ["CONSTRAINT EmitSim", "INVARIANTS TypeOK GhostAgrees"]
    lines.append("PROPERTIES " + " ".join(props or ["P01", "P02", "P03", "P04", "P05", "P06", "P07", "P08", "P09", "P17", "P20"]))
    open(path, "w").write("\n".join(lines) + "\n")


def raw_cfg(consts):
    return dict(min=consts["CfgMin"], max=consts["CfgMax"], wm=consts["CfgWm"], fb=consts["CfgFb"], uc=consts["CfgUc"],
                ums=consts["CfgUms"], rr=consts["CfgRr"], nopool=False)


def scripts_from_tlc(outfile, consts, prefix, maximal=True, limit=None):
    """Turn the histories printed by TLC into harness scripts. With maximal=True histories that are a
    proper prefix of another printed history are dropped (they are executed as part of the longer one)."""
    seen = set()
    hists, keys = [], []
    for s in vlib.tlc_file_prints(outfile, "SCRIPT"):
        if s in seen:
            continue
        seen.add(s)
        h = json.loads(s)
        if not h:
            continue
        ks = [json.dumps(st, sort_keys=True) for st in h]
        hists.append(h)
        keys.append(ks)
    if maximal:
        haschild = set("\x1f".join(ks[:-1]) for ks in keys)
        hists = [h for h, ks in zip(hists, keys) if "\x1f".join(ks) not in haschild]
    else:
        # simulation prints every candidate last step of a behaviour: keep at most two siblings per parent
        bypar = {}
        for h, ks in zip(hists, keys):
            bypar.setdefault("\x1f".join(ks[:-1]), []).append(h)
        hists = [h for hs2 in bypar.values() for h in hs2[:2]]
    if limit and len(hists) > limit:
        random.Random(len(hists)).shuffle(hists)
        hists = hists[:limit]
    cfg = raw_cfg(consts)
    return [{"id": "%s-%d" % (prefix, i), "cfg": cfg, "steps": h} for i, h in enumerate(hists)]


def model_runs(scratch, famname, depth, sim_num, sim_depth, seed, workers, timeout=900, emit=True, script_limit=None, sim_workers=1, props=None):
    """One bounded exhaustive run and one simulation run of the mechanism for a family.
    Returns (stats, scripts, counterexamples)."""
    consts = dict(FAMILIES[famname])
    stats = {"family": famname}
    scripts = []
    problems = []
    if depth:
        c = dict(consts, MaxDepth=depth)
        cfgp = scratch.path("Pool_%s_bfs.cfg" % famname)
        write_cfg(cfgp, c, "bfs" if emit else "bfs-noemit", props)
        cexp = scratch.path("cex-%s-bfs.json" % famname)
        r = vlib.tlc(scratch, "Pool", cfgp, workers=workers, timeout=timeout, tag="%s-bfs" % famname,
                     extra=["-dumpTrace", "json", cexp])
        stats["bfs"] = {k: r.get(k) for k in ("generated", "distinct", "depth", "wall", "timeout")}
        stats["bfs"]["max_events"] = depth
        if r["violated"] or r["errors"] or (r["rc"] not in (0,) and not r["timeout"]):
            problems.append({"family": famname, "mode": "bfs", "violated": r["violated"], "errors": r["errors"][:3],
                             "tail": r["out"][-6000:], "cex_scripts": cex_scripts(cexp, consts, famname + "-bfs")})
        if emit:
            scripts += scripts_from_tlc(r["outfile"], consts, famname + "-b", True, script_limit)
        try:
            os.remove(r["outfile"])
        except OSError:
            pass
    if sim_num:
        c = dict(consts, MaxDepth=sim_depth)
        cfgp = scratch.path("Pool_%s_sim.cfg" % famname)
        write_cfg(cfgp, c, "sim", props)
        cexp = scratch.path("cex-%s-sim.json" % famname)
        r = vlib.tlc(scratch, "Pool", cfgp, workers=sim_workers, timeout=timeout, simulate="num=%d" % sim_num, depth=sim_depth + 1,
                     seed=seed, tag="%s-sim" % famname, extra=["-dumpTrace", "json", cexp])
        import re as _re
        mm = _re.findall(r"The number of states generated: (\d+)", r["out"])
        gen = int(mm[-1]) if mm else None
        stats["sim"] = {"behaviours": sim_num * sim_workers, "depth": sim_depth, "generated": gen, "wall": r["wall"]}
        if r["violated"] or r["errors"]:
            problems.append({"family": famname, "mode": "sim", "violated": r["violated"], "errors": r["errors"][:3],
                             "tail": r["out"][-6000:], "cex_scripts": cex_scripts(cexp, consts, famname + "-sim")})
        scripts += scripts_from_tlc(r["outfile"], consts, famname + "-s", False)
        try:
            os.remove(r["outfile"])
        except OSError:
            pass
    return stats, scripts, problems


def cex_scripts(path, consts, prefix):
    """The input script of a TLC counterexample (history variable of its last state)."""
    if not os.path.exists(path):
        return []
    try:
        d = json.load(open(path))
        d = d.get("counterexample", d)
        states = d.get("state") or d.get("states") or []
        last = states[-1]
        if isinstance(last, list):
            last = last[1]
        h = last.get("hist")
        if h:
            return [{"id": prefix, "cfg": raw_cfg(consts), "steps": h}]
    except Exception as e:
        sys.stderr.write("could not read counterexample %s: %s\n" % (path, e))
    return []


_built = {}


def build_pool_harness(scratch, race=False, gates=False):
    key = (scratch.dir, race, gates)
    if key in _built:
        return _built[key]
    ov = vlib.make_overlay(scratch, "grpcgcp", os.path.join(vlib.HARNESS, "grpcgcp"),
                           rewrite=["gcp_balancer.go", "gcp_picker.go"] + (["gcp_multiendpoint.go"] if gates else []), gates=gates,
                           extra_files={"multiendpoint/zz_verif_clockhook.go": os.path.join(vlib.HARNESS, "grpcgcp_multiendpoint_hook", "zz_verif_clockhook.go")},
                           name="ov%s%s" % ("r" if race else "", "g" if gates else ""))
    b = vlib.go_test_build(scratch, "grpcgcp", ".", ov, "pool%s%s.test" % ("-race" if race else "", "-g" if gates else ""), race=race)
    _built[key] = b
    return b


def run_scripts(scratch, binp, scripts, name="pool"):
    inp = scratch.path(name + "-scripts.ndjson")
    outp = scratch.path(name + "-trace.ndjson")
    with open(inp, "w") as f:
        for s in scripts:
            f.write(json.dumps(s) + "\n")
    rc, out = vlib.run_test_binary(binp, "TestVerifPool", {"VERIF_IN": inp, "VERIF_OUT": outp})
    if rc != 0 or "VERIF-POOL" not in out:
        raise Infra("pool harness failed (rc=%s):\n%s" % (rc, out[-3000:]))
    return inp, outp


SMALL_JVM = ("-Xmx2g", "-XX:ParallelGCThreads=2")


def _validate_one(scratch, lines, tag):
    wd = scratch.sub("tlc-" + tag)
    with open(os.path.join(wd, "trace.ndjson"), "w") as f:
        f.writelines(lines)
    r = vlib.tlc(scratch, "PoolTrace", "PoolTrace.cfg", workers=1, timeout=3600, tag=tag, jvm=SMALL_JVM)
    v = vlib.tlc_prints(r["out"], "VERDICT")
    if not v:
        raise Infra("trace validation produced no verdict:\n" + r["out"][-4000:])
    d = json.loads(v[0])
    shutil.rmtree(wd, ignore_errors=True)
    return d


def validate_trace(scratch, trace, tag="pooltrace", par=16):
    """TLC evaluates every clause of PoolGhost on every event of the recorded trace. The trace is cut
    at script boundaries into chunks validated by parallel TLC processes; verdicts are merged."""
    from concurrent.futures import ThreadPoolExecutor
    t0 = time.time()
    chunks, cur = [], []
    lines = open(trace).readlines()
    target = max(1500, len(lines) // par + 1)
    for ln in lines:
        if ln.startswith('{"sid":') and '"op":"reset"' in ln[:80] and len(cur) >= target:
            chunks.append(cur)
            cur = []
        cur.append(ln)
    if cur:
        chunks.append(cur)
    with ThreadPoolExecutor(max_workers=par) as ex:
        res = list(ex.map(lambda ic: _validate_one(scratch, ic[1], "%s-%d" % (tag, ic[0])), enumerate(chunks)))
    d = {"n": 0, "bad": [], "cnt": {}}
    for r in res:
        d["n"] += r["n"]
        d["bad"] += r["bad"]
        for k, c in r["cnt"].items():
            d["cnt"][k] = d["cnt"].get(k, 0) + c
    d["wall"] = time.time() - t0
    d["chunks"] = len(chunks)
    return d


# ------------------------------------------------------------------ adaptive random driver (traces judged by TLC)

def C(min=1, max=2, wm=1, fb=False, uc=0, ums=0, rr=False):
    return dict(min=min, max=max, wm=wm, fb=fb, uc=uc, ums=ums, rr=rr, nopool=False)


# (name, cfg, profile)
RANDOM_COMBOS = {
    "aff":       (C(1, 3, 2), "affinity"),
    "aff-wide":  (C(3, 3, 100), "affinity"),
    "aff-fb":    (C(2, 3, 2, fb=True), "affinity"),
    "aff-ref":   (C(2, 2, 3, uc=1, ums=2), "refresh"),
    "ref":       (C(1, 2, 2, uc=2, ums=3), "refresh"),
    "ref-fb":    (C(2, 3, 2, fb=True, uc=1, ums=2), "refresh"),
    "load":      (C(3, 4, 100), "load"),
    "load-grow": (C(1, 4, 2), "load"),
    "load-ref":  (C(3, 3, 100, uc=1, ums=2), "load"),
    "faults":    (C(2, 3, 1, fb=True, uc=1, ums=2), "faults"),
    "faults-min": (C(3, 4, 2), "faults"),
    "rr":        (C(3, 3, 100, rr=True), "rr"),
    "rr-ref":    (C(2, 3, 2, rr=True, uc=1, ums=2, fb=True), "rr"),
    "mixed":     (C(2, 3, 2, fb=True, uc=1, ums=2, rr=True), "mixed"),
    "defaults":  (C(0, 0, 0), "mixed"),
    "minmax":    (C(3, 2, 1), "load"),
    "min-only":  (C(3, 0, 0), "load"),        # only minSize given: maxSize and the watermark take their defaults afterwards
    # maxSize 4294967295 and watermark 3000000000 (see vCfg.Big in the harness; the ghost sees the stand-in 1000000)
    "big":       (dict(C(1, 1000000, 1000000), big=True), "load"),
    # an ApiConfig that has method entries but no channelPool section at all: every pool setting takes its default
    "nopool":    (dict(C(0, 0, 0), nopool=True), "load"),
}
PROP_COMBOS = {
    "C01": ["aff", "aff-ref", "aff-fb", "aff-wide", "mixed"],
    "C02": ["load", "load-ref", "load-grow", "aff-ref", "rr-ref", "mixed"],
    "C03": ["load-grow", "faults-min", "minmax", "min-only", "nopool", "aff", "mixed"],
    "C04": ["mixed", "faults", "ref", "load-ref"],
    "C05": ["faults", "faults-min", "mixed", "rr-ref"],
    "C06": ["faults-min", "faults", "rr", "mixed"],
    "C07": ["ref", "aff-ref", "load-ref", "ref-fb", "rr-ref"],
    "C08": ["aff-fb", "ref-fb", "faults", "mixed"],
    "C09": ["rr", "rr-ref", "mixed"],
    "C17": ["defaults", "nopool", "big", "min-only", "mixed"],
    "C20": ["ref", "faults", "mixed", "aff-ref"],
}


def random_jobs(pid, tier, seed):
    njobs, steps = (120, 45) if tier == "quick" else (1500, 90)
    jobs = []
    for ci, name in enumerate(PROP_COMBOS[pid]):
        cfg, prof = RANDOM_COMBOS[name]
        for j in range(njobs):
            jobs.append({"id": "rnd-%s-%d" % (name, j), "cfg": cfg, "seed": seed * 1000003 + ci * 10007 + j, "steps": steps, "profile": prof})
    return jobs


def run_random(scratch, binp, jobs, name="rnd"):
    inp = scratch.path(name + "-jobs.ndjson")
    outp = scratch.path(name + "-trace.ndjson")
    with open(inp, "w") as f:
        for j in jobs:
            f.write(json.dumps(j) + "\n")
    rc, out = vlib.run_test_binary(binp, "TestVerifPoolRandom", {"VERIF_IN": inp, "VERIF_OUT": outp}, timeout=3000)
    if rc != 0 or "VERIF-POOLRAND" not in out:
        raise Infra("random pool driver failed (rc=%s):\n%s" % (rc, out[-3000:]))
    return inp, outp


def conform(scratch, famname, trace, par=16, consts_override=None):
    """Drift monitor: replay the recorded trace through the mechanism layer (specs/PoolConform.tla) with the
    family's configuration constants. Returns {scripts ok, drift, first drifts}."""
    from concurrent.futures import ThreadPoolExecutor
    consts = dict(FAMILIES[famname])
    consts.update(dict(MaxConn=12, MaxCalls=200, MaxPub=400, MaxDepth=100000, StalePick=1000, Pre=0, Keys=[1, 2, 3, 4],
                       UseFail=True, UseUnknown=True, UseBadReq=True, MatchLevel=3))
    consts.update(consts_override or {})
    lines = open(trace).readlines()
    chunks, cur = [], []
    target = max(800, len(lines) // par + 1)
    for ln in lines:
        if ln.startswith('{"sid":') and '"op":"reset"' in ln[:90] and len(cur) >= target:
            chunks.append(cur)
            cur = []
        cur.append(ln)
    if cur:
        chunks.append(cur)

    def one(ic):
        i, c = ic
        tag = "conf-%s-%d" % (famname, i)
        wd = scratch.sub("tlc-" + tag)
        open(os.path.join(wd, "trace.ndjson"), "w").writelines(c)
        cfgp = os.path.join(wd, "PoolConform_run.cfg")
        lines_ = ["CONSTANTS"] + [" %s = %s" % (k, tla_val(v)) for k, v in consts.items()] + ["INIT CInit", "NEXT CNext", "CHECK_DEADLOCK FALSE"]
        open(cfgp, "w").write("\n".join(lines_) + "\n")
        r = vlib.tlc(scratch, "PoolConform", cfgp, workers=1, timeout=1800, tag=tag, jvm=("-Xmx3g", "-XX:ParallelGCThreads=2"))
        v = vlib.tlc_prints(r["out"], "VERDICT")
        d = [json.loads(x) for x in vlib.tlc_prints(r["out"], "DRIFT")]
        for x in d[:3]:
            evs = [json.loads(ln) for ln in c if ('"sid":"%s"' % x["sid"]) in ln]
            x["events"] = [{k: v for k, v in e.items() if k in ("i", "t", "op", "c", "s", "pk", "m", "dl", "of", "res", "rc", "rn", "auto", "d", "n", "out", "av", "keys")
                            and v not in ("", 0, [], False)} | {"cc": [(q["k"], q["c"], q["s"]) for q in e["cc"]], "streams": e["wb"]["streams"]} for e in evs]
        shutil.rmtree(wd, ignore_errors=True)
        if not v:
            raise Infra("conformance run gave no verdict:\n" + r["out"][-3000:])
        # TLC may reach the end along several nondeterministic branches: take the best one
        vs = [json.loads(x) for x in v]
        best = min(vs, key=lambda x: x["drift"])
        if best["drift"] == 0:
            d = []          # give-ups printed along losing nondeterministic branches
        return best, d
    with ThreadPoolExecutor(max_workers=par) as ex:
        res = list(ex.map(one, enumerate(chunks)))
    out = {"events": 0, "scripts_conforming": 0, "drift": 0, "first_drifts": []}
    for best, d in res:
        out["events"] += best["n"]
        out["scripts_conforming"] += best["ok"]
        out["drift"] += best["drift"]
        out["first_drifts"] += d[:3]
    out["first_drifts"] = out["first_drifts"][:10]
    return out


def load_seed_scripts():
    p = os.path.join(vlib.VERIF, "scripts", "pool_seed.ndjson")
    out = []
    if os.path.exists(p):
        for l in open(p):
            if l.strip():
                out.append(json.loads(l))
    return out
