#!/usr/bin/env python3
"""check.py <property-id> quick|thorough      run the check of one property (exit 0 / 1 / 2)
   check.py replay <dir>                      re-execute a saved replay against the current tree

exit 0: the property held on everything explored (known findings are printed as KNOWN-FINDING lines)
exit 1: a clause of the property is false on a trace recorded from the real code; a line
        "VIOLATION property=<id> replay=<path>" is printed
exit 2: anything that is not a verdict about the code (build failure, TLC error, unreproduced model
        counterexample, time-out)."""
import json, os, sys, time, traceback

sys.path.insert(0, os.path.dirname(os.path.abspath(__file__)))
import vlib
from vlib import Infra

POOL_PROPS = ["C01", "C02", "C03", "C04", "C05", "C06", "C07", "C08", "C09", "C17", "C20"]


def main():
    if len(sys.argv) < 3:
        print(__doc__)
        return 2
    if sys.argv[1] == "replay":
        import replay
        return replay.main(sys.argv[2])
    pid, tier = sys.argv[1], sys.argv[2]
    seed = int(os.environ.get("VERIF_SEED", "1") or 1)
    tier = os.environ.get("VERIF_TIER", tier) if tier not in ("quick", "thorough") else tier
    t0 = time.time()
    try:
        if pid in POOL_PROPS:
            import check_pool
            rc = check_pool.run(pid, tier, seed)
        elif pid in ("C13", "C14"):
            import check_me
            rc = check_me.run(pid, tier, seed)
        elif pid in ("C15", "C16"):
            import check_gcpme
            rc = check_gcpme.run(pid, tier, seed)
        elif pid == "C12":
            import check_stream
            rc = check_stream.run(pid, tier, seed)
        elif pid == "C10":
            import check_race
            rc = check_race.run(pid, tier, seed)
        elif pid in ("C11", "C18", "C19"):
            import check_func
            rc = check_func.run(pid, tier, seed)
        else:
            print("unknown property", pid)
            return 2
    except Infra as e:
        print("INFRA-ERROR property=%s: %s" % (pid, e))
        return 2
    except Exception:
        traceback.print_exc()
        print("INFRA-ERROR property=%s: internal error" % pid)
        return 2
    print("check %s %s finished in %.1fs with status %d" % (pid, tier, time.time() - t0, rc))
    return rc


if __name__ == "__main__":
    sys.exit(main())
