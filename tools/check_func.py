#!/usr/bin/env python3
"""Functional properties decided by TLA+ reference definitions: C11 (key extraction), C18 (prober helpers),
C19 (checksum codec). TLC enumerates the vector space from the specification, the harness runs the real
function on every vector, and TLC recomputes the reference result for every logged vector."""
import json, os, sys, time, random

sys.path.insert(0, os.path.dirname(os.path.abspath(__file__)))
import vlib, pool
from vlib import Infra


def gen_vectors(scratch, module, cfg, tag):
    r = vlib.tlc(scratch, module, cfg, workers=1, timeout=900, tag=tag)
    if r["errors"] or r["rc"] != 0:
        raise Infra("%s vector generation failed:\n%s" % (module, r["out"][-3000:]))
    vecs = list(vlib.tlc_file_prints(r["outfile"], "VEC"))
    os.remove(r["outfile"])
    return vecs, r


def report(pid, tier, seed, verdict, vecs_n, gen, extra_cov, assumptions, t0, trace, kind, level="model_checking"):
    kf = vlib.load_known_findings()
    reported, known = [], {}
    for b in verdict["bad"]:
        rest = []
        for cid in b["ids"]:
            f = vlib.known_match(kf, pid, dict(b, ids=[cid]))
            if f:
                known[f["what"]] = known.get(f["what"], 0) + 1
            else:
                rest.append(cid)
        if rest:
            reported.append(dict(b, ids=rest))
    for w, n in known.items():
        print("KNOWN-FINDING: property=%s %s (matched %d times)" % (pid, w, n))
    rc, seen = 0, set()
    lines = None
    for b in reported:
        sig = tuple(sorted(b["ids"]))
        if sig in seen:
            continue
        seen.add(sig)
        if lines is None:
            lines = {}
            for x in open(trace):
                try:
                    lines[json.loads(x).get("id")] = x
                except ValueError:
                    pass
        ln = lines.get(b["i"], "")
        d = vlib.save_replay(pid, "vec-%s-%d" % (b["i"], seed), {"kind": kind + "\n", "script.ndjson": ln,
                             "trace.ndjson": ln, "violation.json": json.dumps({"property": pid, "clauses": b["ids"], "vector": b["i"]}, indent=1)})
        print("VIOLATION property=%s replay=%s" % (pid, d))
        print("  clauses %s violated by vector %s: %s" % (",".join(b["ids"]), b["i"], ln[:300].strip()))
        rc = 1
        if len(seen) >= 4:
            break
    cov = {"evaluations": verdict["n"], "distinct_nontrivial": vecs_n,
           "rule": "vectors enumerated by TLC from the specification's catalogue (distinct by construction); each is executed on the real function and re-evaluated by TLC",
           "samples": [json.loads(l) for l in open(trace).readlines()[:3]],
           "states": max(gen.get("distinct") or 1, 1), "transitions": max(verdict["n"], 1), "traces_validated_against_impl": verdict["n"],
           "clause_hits": verdict["cnt"], "known_findings_matched": known, "exhaustive": extra_cov.pop("exhaustive", False)}
    cov.update(extra_cov)
    vlib.write_evidence(pid, tier, seed, level, cov, assumptions, time.time() - t0, len(reported))
    print("%s %s: vectors=%d clause-hits=%s" % (pid, tier, verdict["n"], verdict["cnt"]))
    return rc


def run_c11(tier, seed):
    t0 = time.time()
    scratch = vlib.Scratch("c11")
    try:
        binp = pool.build_pool_harness(scratch)
        vecs, gen = gen_vectors(scratch, "KeyPath", "KeyPath_gen.cfg", "kpgen")
        total = len(vecs)
        if tier == "quick":
            random.Random(seed).shuffle(vecs)
            vecs = vecs[:9000]
        inp, outp = scratch.path("kp-in.ndjson"), scratch.path("kp-out.ndjson")
        with open(inp, "w") as f:
            for v in vecs:
                f.write(v + "\n")
        rc, out = vlib.run_test_binary(binp, "TestVerifKeyPath", {"VERIF_IN": inp, "VERIF_OUT": outp})
        if rc != 0 or "VERIF-KEYPATH" not in out:
            raise Infra("key path harness failed:\n" + out[-3000:])
        # chunk without script boundaries: every line is independent
        verdict = vlib.validate_chunks(scratch, outp, "KeyPathTrace", lambda ln: True, tag="kptv", min_chunk=600)
        return report("C11", tier, seed, verdict, len(vecs), gen,
                      {"exhaustive": tier != "quick", "catalogue_size": total,
                       "explanation": "specs/KeyPath.tla defines the reference result of following a locator through a message over a catalogue of Go value "
                                      "shapes (strings, ints, pointers, nil at any depth, slices of values/pointers/slices, interfaces holding values or "
                                      "pointers, maps, double pointers, promoted fields of an embedded pointer) x locators (valid, wrong case, empty segment, "
                                      "missing, too long, too short); quick samples the catalogue, thorough runs all of it"},
                      ["message values are built from the harness's KNode type; generated protobuf messages are structs of the same kinds (string, pointer, slice fields)",
                       "locator segments are taken from a fixed alphabet; the reference treats any other segment as naming no field"],
                      t0, outp, "keypath")
    finally:
        scratch.cleanup()


def run_c17_text(scratch, binp, tier, seed):
    """Configuration text part of C17: returns (verdict, number of vectors, trace path, generation stats)."""
    vecs, gen = gen_vectors(scratch, "Config", "Config_gen.cfg", "cfggen")
    inp, outp = scratch.path("cfg-in.ndjson"), scratch.path("cfg-out.ndjson")
    with open(inp, "w") as f:
        for v in vecs:
            f.write(v + "\n")
    rc, out = vlib.run_test_binary(binp, "TestVerifConfig", {"VERIF_IN": inp, "VERIF_OUT": outp})
    if rc != 0 or "VERIF-CONFIG" not in out:
        raise Infra("config harness failed:\n" + out[-3000:])
    verdict = vlib.validate_chunks(scratch, outp, "ConfigTrace", lambda ln: True, tag="cfgtv", min_chunk=200)
    return verdict, len(vecs), outp, gen


def run(pid, tier, seed):
    if pid == "C11":
        return run_c11(tier, seed)
    if pid == "C18":
        import check_prober
        return check_prober.run(tier, seed)
    if pid == "C19":
        import check_checksum
        return check_checksum.run(tier, seed)
    raise Infra("unknown functional property " + pid)
