#!/usr/bin/env python3
"""Write benign/SUMMARY.md from benign/*/meta.json (false-alarm test, see DESIGN.md section 6)."""
import glob, json, os, sys

VERIF = os.path.dirname(os.path.dirname(os.path.abspath(__file__)))


def main():
    rows = []
    for p in sorted(glob.glob(os.path.join(VERIF, "benign", "*", "meta.json"))):
        m = json.load(open(p))
        checks = m.get("checks", {})
        rows.append((m["id"], m.get("base", "?"), m.get("builds_and_tests"), sorted(checks), m.get("alarms", []), m.get("infra", []),
                     sum(d.get("wall", 0) for d in checks.values()), m.get("note", "")))
    out = ["# False-alarm test: harmless changes against the quick tier", "",
           "Each row: a change written by a sub-agent that was given every property statement and asked to keep all of them true",
           "(`patch.diff` next to `meta.json`), the checks run against it (`VERIF_REPO=<scratch worktree>`), and what they said.",
           "`alarms` = checks that printed a VIOLATION (exit 1); `infra` = checks that could not run (exit 2).", "",
           "| change | base | builds + unit tests | checks run | alarms | infra | wall (s) | note |", "|---|---|---|---|---|---|---|---|"]
    for r in rows:
        out.append("| %s | %s | %s | %s | %s | %s | %d | %s |" % (r[0], r[1], r[2], " ".join(r[3]), " ".join(r[4]) or "-", " ".join(r[5]) or "-", r[6], r[7]))
    n = len(rows)
    out += ["", "%d changes, %d check runs, %d alarms, %d infrastructure failures." % (
        n, sum(len(r[3]) for r in rows), sum(len(r[4]) for r in rows), sum(len(r[5]) for r in rows))]
    open(os.path.join(VERIF, "benign", "SUMMARY.md"), "w").write("\n".join(out) + "\n")
    print("\n".join(out[-3:]))


if __name__ == "__main__":
    sys.exit(main())
