#!/usr/bin/env python3
"""C18: prober helpers. Vectors enumerated by TLC from specs/Prober.tla; executed in the prober package (backoff,
header parsing, resource names, probe interval, payload hash) and in package main (validateFlags); merged by
vector id; every line re-evaluated by TLC (specs/ProberTrace.tla)."""
import json, os, sys, time
sys.path.insert(0, os.path.dirname(os.path.abspath(__file__)))
import vlib, check_func
from vlib import Infra


def run(tier, seed):
    t0 = time.time()
    scratch = vlib.Scratch("c18")
    try:
        vecs, gen = check_func.gen_vectors(scratch, "Prober", "Prober_gen.cfg", "prgen")
        inp = scratch.path("pr-in.ndjson")
        with open(inp, "w") as f:
            for v in vecs:
                f.write(v + "\n")
        ov1 = vlib.make_overlay(scratch, "spanner_prober/prober", os.path.join(vlib.HARNESS, "spanner_prober_prober"), name="ovp1")
        b1 = vlib.go_test_build(scratch, "spanner_prober", "./prober", ov1, "prober.test")
        ov2 = vlib.make_overlay(scratch, "spanner_prober", os.path.join(vlib.HARNESS, "spanner_prober_main"), name="ovp2")
        b2 = vlib.go_test_build(scratch, "spanner_prober", ".", ov2, "flags.test")
        o1, o2 = scratch.path("pr-out1.ndjson"), scratch.path("pr-out2.ndjson")
        nsweep = 300 if tier == "quick" else 20000
        rc, out = vlib.run_test_binary(b1, "TestVerifProber", {"VERIF_IN": inp, "VERIF_OUT": o1, "VERIF_SEED": str(seed), "VERIF_N": str(nsweep)})
        if rc != 0 or "VERIF-PROBER" not in out:
            raise Infra("prober harness failed:\n" + out[-3000:])
        rc, out = vlib.run_test_binary(b2, "TestVerifFlags", {"VERIF_IN": inp, "VERIF_OUT": o2})
        if rc != 0 or "VERIF-FLAGS" not in out:
            raise Infra("flags harness failed:\n" + out[-3000:])
        acc = {}
        for l in open(o2):
            d = json.loads(l)
            acc[d["id"]] = d
        merged = scratch.path("pr-trace.ndjson")
        n = 0
        with open(merged, "w") as f:
            for l in open(o1):
                d = json.loads(l)
                if d.get("kind") == "flags":
                    a = acc.get(d["id"], {})
                    d["accepted"] = bool(a.get("accepted"))
                    d["panic"] = bool(d.get("panic")) or bool(a.get("fpanic"))
                f.write(json.dumps(d) + "\n")
                n += 1
        verdict = vlib.validate_chunks(scratch, merged, "ProberTrace", lambda ln: True, tag="prtv", min_chunk=300)
        return check_func.report("C18", tier, seed, verdict, len(vecs), gen,
                                 {"sweeps": nsweep, "exhaustive": False,
                                  "explanation": "specs/Prober.tla defines Backoff as the code's step machine over exactly representable values, the header-over-trailer / "
                                                 "first-gfet4t7 rule over entry classes, flag acceptance by character class, and qps classes; TLC enumerates the vectors, the "
                                                 "real functions run on each, TLC re-evaluates; seeded sweeps of arbitrary (base<=max, retries up to 10^6) are checked for bounds "
                                                 "and monotonicity in microseconds"},
                                 ["SHA-256 itself is not modelled: the harness compares the returned hash with crypto/sha256 and the clause is that boolean",
                                  "floating point: exact comparison only for base = m*2^9 and at most 9 growth steps; elsewhere bounds and monotonicity only"],
                                 t0, merged, "prober")
    finally:
        scratch.cleanup()
