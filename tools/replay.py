#!/usr/bin/env python3
"""Re-execute a saved replay (script) against the current tree and re-validate it with TLC."""
import json, os, sys
sys.path.insert(0, os.path.dirname(os.path.abspath(__file__)))
import vlib
from vlib import Infra


def main(d):
    viol = json.load(open(os.path.join(d, "violation.json")))
    pid = viol["property"]
    kind = open(os.path.join(d, "kind")).read().strip() if os.path.exists(os.path.join(d, "kind")) else "pool"
    script = open(os.path.join(d, "script.ndjson")).read()
    scratch = vlib.Scratch("replay")
    try:
        inp = scratch.path("in.ndjson")
        open(inp, "w").write(script)
        if kind == "keypath":
            import pool
            b = pool.build_pool_harness(scratch)
            out = scratch.path("out.ndjson")
            rc, o = vlib.run_test_binary(b, "TestVerifKeyPath", {"VERIF_IN": inp, "VERIF_OUT": out})
            verdict = vlib.validate_chunks(scratch, out, "KeyPathTrace", lambda ln: True, par=1, tag="replay")
        elif kind in ("prober", "checksum", "race", "config"):
            print("replay of a %s finding: the recorded vector / report is in %s; re-run `./check %s quick` (the vector space is enumerated "
                  "deterministically, the same vector is executed again)" % (kind, d, pid))
            import subprocess
            r = subprocess.run([os.path.join(vlib.VERIF, "check"), pid, "quick"], stdout=subprocess.PIPE, stderr=subprocess.STDOUT, text=True)
            print(r.stdout[-1500:])
            return r.returncode
        elif kind == "me":
            import check_me
            sc0 = json.loads(script.split("\n")[0])
            if any(st.get("op") == "conc" for st in sc0.get("steps", [])):
                import conc_me, conc
                b = conc_me.build(scratch)
                out = conc_me.run_scripts(scratch, b, [sc0], "replay")
                lin = scratch.path("replay-lin.ndjson")
                n_orders = 0
                with open(lin, "w") as fo:
                    for sid, evs in conc.sections(out).items():
                        for j, seq in enumerate(conc_me.linearizations(evs, None)):
                            n_orders += 1
                            for e in seq:
                                fo.write(json.dumps(dict(e, sid="%s~%d" % (sid, j))) + "\n")
                v = check_me.validate(scratch, lin, par=1)
                bad_sids = set(b_["sid"] for b_ in v["bad"] if any(c.startswith(pid) for c in b_["ids"]))
                verdict = dict(v, bad=[b_ for b_ in v["bad"] if any(c.startswith(pid) for c in b_["ids"])] if len(bad_sids) == n_orders else [])
                print("concurrent section: %d orders validated, %s" % (n_orders, "unexplained" if verdict["bad"] else "explained"))
            else:
                b = check_me.build(scratch)
                out = scratch.path("out.ndjson")
                rc, o = vlib.run_test_binary(b, "TestVerifME", {"VERIF_IN": inp, "VERIF_OUT": out})
                verdict = check_me.validate(scratch, out, par=1)
        elif kind == "gcpme" and any(st.get("op") == "conc" for st in json.loads(script.split("\n")[0]).get("steps", [])):
            import pool, conc, conc_gme
            b = pool.build_pool_harness(scratch, gates=True)
            out = conc_gme.run_scripts(scratch, b, [json.loads(script.split("\n")[0])], "replay")
            lin = scratch.path("replay-lin.ndjson")
            n_orders = 0
            with open(lin, "w") as fo:
                for sid, evs in conc.sections(out).items():
                    for j, seq in enumerate(conc_gme.linearizations(evs)):
                        n_orders += 1
                        for e in seq:
                            fo.write(json.dumps(dict(e, sid="%s~%d" % (sid, j))) + "\n")
            v = vlib.validate_chunks(scratch, lin, "GCPMETrace", lambda ln: '"op":"reset"' in ln[:80], par=1, tag="replay")
            mineb = [b_ for b_ in v["bad"] if any(c.startswith(pid) for c in b_["ids"])]
            verdict = dict(v, bad=mineb if len(set(b_["sid"] for b_ in mineb)) == n_orders else [])
            print("concurrent section: %d orders validated, %s" % (n_orders, "unexplained" if verdict["bad"] else "explained"))
        elif kind in ("stream", "gcpme"):
            import pool
            b = pool.build_pool_harness(scratch)
            out = scratch.path("out.ndjson")
            test, mod = ("TestVerifStream", "StreamTrace") if kind == "stream" else ("TestVerifGME", "GCPMETrace")
            rc, o = vlib.run_test_binary(b, test, {"VERIF_IN": inp, "VERIF_OUT": out})
            verdict = vlib.validate_chunks(scratch, out, mod, lambda ln: '"op":"reset"' in ln[:80], par=1, tag="replay")
        else:
            import pool
            b = pool.build_pool_harness(scratch)
            scripts = [x for x in (json.loads(l) for l in script.split("\n") if l.strip()) if x]
            if scripts and scripts[0].get("stress"):
                # a stress round is identified by driver and seed: the driver is run again with that seed
                kind, sd = scripts[0]["stress"], str(scripts[0].get("seed", 1))
                test, gates, env = {"rr": ("TestVerifStressRR", False, {"VERIF_N": "12"}),
                                    "growth": ("TestVerifStressGrowth", True, {"VERIF_N": "60"}),
                                    "growth/conc": ("TestVerifStressGrowth", True, {"VERIF_N": "60"}),
                                    "conc": ("TestVerifRacePool", True, {"VERIF_RACE": "1", "VERIF_JITTER": "1", "VERIF_N": "16"})}[kind]
                b = pool.build_pool_harness(scratch, gates=gates)
                out = scratch.path("out.ndjson")
                vlib.run_test_binary(b, test, dict(env, VERIF_OUT=out, VERIF_SEED=sd), timeout=3000)
                verdict = pool.validate_trace(scratch, out, "replay", par=1)
                mine = [b_ for b_ in verdict["bad"] if any(c.startswith(pid) for c in b_["ids"])]
                if mine:
                    print("VIOLATION property=%s replay=%s" % (pid, d))
                    print("  reproduced:", mine[0]["ids"], "in round", mine[0]["sid"])
                    return 1
                print("not reproduced on the current tree (%s rounds of the %s driver, seed %s)" % (env["VERIF_N"], kind, sd))
                return 0
            is_conc = bool(scripts) and any(st.get("op") == "conc" for st in scripts[0].get("steps", []))
            if is_conc:
                import conc
                b = pool.build_pool_harness(scratch, gates=True)
                _, out = pool.run_scripts(scratch, b, scripts, "replay")
                bad, verdict, js = conc.judge(scratch, conc.sections(out), "replay")
                verdict = dict(verdict, bad=conc.for_property(bad, pid))
                print("concurrent section: %d orders validated, %s" % (js["linearizations"], "unexplained" if bad else "explained"))
            elif scripts and scripts[0].get("random_job"):
                _, out = pool.run_random(scratch, b, [x["random_job"] for x in scripts], "replay")
            else:
                _, out = pool.run_scripts(scratch, b, scripts, "replay")
            if not is_conc:
                verdict = pool.validate_trace(scratch, out, "replay", par=1)
        for l in open(out):
            e = json.loads(l)
            print({k: v for k, v in e.items() if v not in ("", 0, [], False, None) and k not in ("cfg", "wb", "sid")})
        mine = [b for b in verdict["bad"] if any(c.startswith(pid) for c in b["ids"])]
        if mine:
            print("VIOLATION property=%s replay=%s" % (pid, d))
            print("  reproduced:", mine[0]["ids"], "at event", mine[0]["i"])
            return 1
        print("not reproduced on the current tree (clauses recorded: %s)" % viol.get("clauses"))
        return 0
    except Infra as e:
        print("INFRA-ERROR", e)
        return 2
    finally:
        scratch.cleanup()
