#!/usr/bin/env python3
import sys, os, json, time
sys.path.insert(0, os.path.dirname(os.path.abspath(__file__)))
import vlib, pool
fams = sys.argv[1].split(',')
depth = int(sys.argv[2]); simn = int(sys.argv[3]); simd = int(sys.argv[4])
s = vlib.Scratch('dev')
try:
    b = pool.build_pool_harness(s)
    for f in fams:
        t0 = time.time()
        st, scripts, probs = pool.model_runs(s, f, depth, simn, simd, 1, 16)
        print(f, json.dumps(st))
        for p in probs:
            print('PROBLEM', p['violated'], p['errors']); print(p['tail'][-5000:])
        t1 = time.time()
        inp, tr = pool.run_scripts(s, b, scripts, f)
        t2 = time.time()
        d = pool.validate_trace(s, tr, 'tv-' + f)
        print(f, 'scripts', len(scripts), 'events', d['n'], 'model %.1fs harness %.1fs tv %.1fs' % (t1 - t0, t2 - t1, d['wall']))
        print('  bad', d['bad'][:8], len(d['bad']))
        print('  zero', sorted(k for k, c in d['cnt'].items() if c == 0))
        if d['bad'] and len(sys.argv) > 5:
            os.makedirs(sys.argv[5], exist_ok=True)
            import shutil; shutil.copy(inp, sys.argv[5]); shutil.copy(tr, sys.argv[5])
finally:
    s.cleanup()
