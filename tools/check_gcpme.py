#!/usr/bin/env python3
"""C15 / C16: GCPMultiEndpoint. TLC on specs/GCPME.tla (mechanism => clauses of GCPMEGhost; script
generation) -> scripts executed on the real GCPMultiEndpoint over in-process bufconn servers ->
recorded trace -> TLC on specs/GCPMETrace.tla. Failing-update scripts are repeated because Go map
iteration decides in which order UpdateMultiEndpoints applies entries."""
import json, os, sys, time, random, re, shutil

sys.path.insert(0, os.path.dirname(os.path.abspath(__file__)))
import vlib, pool
from vlib import Infra

FAM = {"C15": "P15", "C16": "P16"}
ASSUMPTIONS = [
    "pools are real *grpc.ClientConn values dialled through the API's DialFunc over in-process bufconn servers; an outage is a stopped server, recovery a restarted one",
    "events are recorded after settling: every open pool connection is READY iff its endpoint is up and routes are stable for 15 ms (bound 3 s, C15's 'bounded time')",
    "histories without clock inputs run the MultiEndpoints without recovery timeout / switching delay (their Current() is then predicted exactly); histories with clock inputs run them with (recovery, delay) in {(0,3),(2,3),(2,0)} virtual ms on a virtual clock injected into package multiendpoint: there Current() is adopted from the recording and only what holds whatever the timers do is checked (C15_a, C15_r, C15_t, C16_*); the timer rules themselves are C13/C14's subject",
    "RPCs are sequential in this pipeline (concurrent RPC vs UpdateMultiEndpoints is C10's subject)",
]


def write_cfg(path, depth, mode, prop, optsets, ticks=()):
    lines = ["CONSTANTS", " MaxDepth = %d" % depth, ' Endpoints = {"a", "b", "c"}', " OptSets = {%s}" % ", ".join(map(str, optsets)), " MaxRpc = 2", " MaxSever = 1",
             " Ticks = {%s}" % ", ".join(map(str, ticks)),
             "INIT Init", "NEXT Next", "CHECK_DEADLOCK FALSE"]
    if mode == "bfs":
        lines += ["VIEW View", "INVARIANTS TypeOK GhostAgrees EmitBfs"]
    else:
        lines += ["CONSTRAINT EmitSim", "INVARIANTS TypeOK GhostAgrees"]
    lines += ["PROPERTIES " + prop]
    open(path, "w").write("\n".join(lines) + "\n")


def run_sharded(scratch, binp, scripts, name, env, shards):
    """The harness is real-time bound (settling of real connections): the scripts are split over several processes, each with its
    own in-process servers and its own goroutine baseline; the traces are concatenated in script order."""
    from concurrent.futures import ThreadPoolExecutor
    shards = max(1, min(shards, len(scripts) // 20 + 1))
    parts = [scripts[k::shards] for k in range(shards)]

    def one(k):
        inp, outp = scratch.path("%s-scripts-%d.ndjson" % (name, k)), scratch.path("%s-trace-%d.ndjson" % (name, k))
        with open(inp, "w") as f:
            for s in parts[k]:
                f.write(json.dumps(s) + "\n")
        rc, out = vlib.run_test_binary(binp, "TestVerifGME", dict(env, VERIF_IN=inp, VERIF_OUT=outp), timeout=3400)
        if rc != 0 or "VERIF-GME" not in out:
            raise Infra("GCPME harness failed (shard %d of %s):\n%s" % (k, name, out[-3000:]))
        return outp
    with ThreadPoolExecutor(max_workers=shards) as ex:
        outs = list(ex.map(one, range(shards)))
    allp = scratch.path(name + "-trace.ndjson")
    with open(allp, "w") as fo:
        for o in outs:
            with open(o) as fi:
                shutil.copyfileobj(fi, fo)
    return allp


def has_failing_cfg(h):
    return any(s.get("op") in ("new", "update") for s in h)


def run(pid, tier, seed):
    t0 = time.time()
    rnd = random.Random(seed)
    scratch = vlib.Scratch("gcpme-" + pid)
    try:
        binp = pool.build_pool_harness(scratch)
        depth = 4 if tier == "quick" else 6
        optsets = [1, 2, 3, 4, 5, 6, 7, 8, 10, 11] if tier == "quick" else [1, 2, 3, 4, 5, 6, 7, 8, 9, 10, 11]
        problems, stats = [], []
        cfgp = scratch.path("GCPME_bfs.cfg")
        write_cfg(cfgp, depth, "bfs", FAM[pid], optsets)
        cex = scratch.path("cex-gcpme.json")
        r = vlib.tlc(scratch, "GCPME", cfgp, workers=16, timeout=1200, tag="gcpme-bfs", extra=["-dumpTrace", "json", cex])
        states, transitions = r.get("distinct") or 0, r.get("generated") or 0
        stats.append({"mode": "bfs", "max_events": depth, "distinct": states, "generated": transitions, "wall": round(r["wall"], 1)})
        if r["violated"] or r["errors"]:
            problems.append({"mode": "bfs", "violated": r["violated"], "errors": r["errors"][:2], "tail": r["out"][-3000:], "hist": vlib.cex_hist(cex)})
        hists = vlib.hists_from_tlc(r["outfile"], True)
        os.remove(r["outfile"])
        lim = 2500 if tier == "quick" else 5000
        if len(hists) > lim:
            rnd.shuffle(hists)
            hists = hists[:lim]
        simn, simd = (3, 10) if tier == "quick" else (40, 16)
        cfgs = scratch.path("GCPME_sim.cfg")
        write_cfg(cfgs, simd, "sim", FAM[pid], [1, 2, 3, 4, 5, 6, 7, 8, 9, 10, 11], ticks=(1, 6))
        r2 = vlib.tlc(scratch, "GCPME", cfgs, workers=16, timeout=900, simulate="num=%d" % simn, depth=simd + 1, seed=seed, tag="gcpme-sim")
        mm = re.findall(r"The number of states generated: (\d+)", r2["out"])
        transitions += int(mm[-1]) if mm else 0
        stats.append({"mode": "sim", "behaviours": simn * 16, "depth": simd})
        if r2["violated"] or r2["errors"]:
            problems.append({"mode": "sim", "violated": r2["violated"], "errors": r2["errors"][:2], "tail": r2["out"][-3000:], "hist": None})
        hists += vlib.hists_from_tlc(r2["outfile"], False)
        os.remove(r2["outfile"])
        scripts = []
        reps = 4 if tier == "quick" else 6
        TIMED = [(0, 3), (2, 3), (2, 0)]   # (recovery timeout, switching delay) in virtual ms; histories with clock inputs run on the virtual clock
        # Tick is enabled in every live state of GCPME.tla and changes nothing there, so the exhaustive run (VIEW = mechanism state)
        # never extends a history through it: the timed variants of the exhaustive histories are derived here by inserting
        # clock inputs (every result is still a behaviour of the model); simulation produces ticks by itself
        derived = []
        for i, h in enumerate(hists):
            if any(s.get("op") == "tick" for s in h) or not any(s.get("op") in ("down", "up", "update") for s in h):
                continue
            if i % (4 if tier == "quick" else 1):
                continue
            v = []
            if (i // 4) % 2 == 0:
                for s in h:
                    if s.get("op") in ("rpc", "close"):
                        v.append({"op": "tick", "n": 6})
                    v.append(s)
                v.append({"op": "tick", "n": 6})
            else:
                for s in h:
                    v.append(s)
                    if s.get("op") in ("down", "up", "update"):
                        v.append({"op": "tick", "n": 1})
                v += [{"op": "tick", "n": 6}, {"op": "rpc", "name": "", "stream": i % 8 < 4}]
            derived.append(v)
        # the exhaustive histories are as long as the bound allows: a call is appended to a third of those that end in a
        # reconfiguration or an outage (what an RPC meets after the last input is what C16 is about)
        probes = []
        for i, h in enumerate(hists):
            if h and h[-1].get("op") in ("down", "up", "update"):
                probes.append(h + [{"op": "rpc", "name": "", "stream": i % 2 == 0}, {"op": "rpc", "name": "m2", "stream": i % 4 >= 2}])
        hists = hists + derived + probes
        for i, h in enumerate(hists):
            r_, d_ = TIMED[i % 3] if any(s.get("op") == "tick" for s in h) else (0, 0)
            scripts.append({"id": "g-%d" % i, "r": r_, "d": d_, "steps": h})
            # rejected reconfigurations depend on Go map order: repeat those histories
            if any(s.get("op") == "update" for s in h) and i % (3 if tier == "quick" else 1) == 0:
                for k in range(reps - 1):
                    scripts.append({"id": "g-%d-r%d" % (i, k), "r": r_, "d": d_, "steps": h})
        for k, p in enumerate(problems):
            if p.get("hist"):
                for j in range(reps):
                    scripts.append({"id": "cex-%d-%d" % (k, j), "steps": p["hist"]})
        seedp = os.path.join(vlib.VERIF, "scripts", "gcpme_seed.ndjson")
        if os.path.exists(seedp):
            for l in open(seedp):
                if l.strip():
                    s = json.loads(l)
                    for j in range(reps):
                        scripts.append(dict(s, id="%s-%d" % (s["id"], j)))
        outp = run_sharded(scratch, binp, scripts, "g", {}, 8)
        if pid == "C15":
            # connectivity flaps with yields that sleep at random in front of every lock acquisition (monitor vs notify vs update)
            bing = pool.build_pool_harness(scratch, gates=True)
            flaps = []
            nfl = 6 if tier == "quick" else 60
            for k in range(nfl):
                st = [{"op": "new", "mes": [{"name": "m1", "eps": ["a", "b"]}, {"name": "m2", "eps": ["b", "a"]}], "def": "m1"}]
                for j in range(6):
                    e = "ab"[(j + k) % 2]
                    st += [{"op": "down", "e": e}, {"op": "rpc", "name": "", "stream": j % 2 == 1}, {"op": "up", "e": e}, {"op": "rpc", "name": "m2", "stream": k % 2 == 1}]
                st.append({"op": "close"})
                flaps.append({"id": "flap-%d" % k, "steps": st})
            foutp = run_sharded(scratch, bing, flaps, "flap", {"VERIF_JITTER": "1"}, 4)
            with open(outp, "a") as fo:
                for ln in open(foutp):
                    fo.write(ln)
            scripts += flaps
        verdict = vlib.validate_chunks(scratch, outp, "GCPMETrace", lambda ln: '"op":"reset"' in ln[:80], tag="gtv", min_chunk=800)
        # concurrent sections: RPCs while one UpdateMultiEndpoints is applied (LockSched schedules on the gate build, tools/conc_gme.py)
        import conc_gme
        conc_sum = None
        cr = conc_gme.run(scratch, pid, tier, seed)
        if cr:
            conc_sum = dict(cr["summary"], model_runs=cr["stats"])
            for b in cr["bad"]:
                per = [[c for c in ids if c.startswith(pid)] for ids in b["per_order"]]
                if all(per):
                    verdict["bad"].append(dict(b, ids=min(per, key=len)))
            for c_, n_ in cr["cnt"].items():
                verdict["cnt"][c_] = verdict["cnt"].get(c_, 0) + n_
            verdict["n"] += cr["n"]
            for sid_, sc_ in cr["scripts"].items():
                if sid_ in cr["traces"]:
                    scripts.append(sc_)
            with open(outp, "a") as fo:
                for lns_ in cr["traces"].values():
                    fo.writelines(lns_)
            for st_ in cr["stats"]:
                states += st_.get("distinct") or 0
                transitions += st_.get("generated") or 0
        mine = []
        for b in verdict["bad"]:
            ids = [c for c in b["ids"] if c.startswith(pid)]
            if ids:
                mine.append(dict(b, ids=ids))
        if problems and not mine:
            bad_sids = set(b["sid"] for b in verdict["bad"])
            unrep = [p for k, p in enumerate(problems) if not any(s.startswith("cex-%d-" % k) for s in bad_sids)]
            if unrep:
                for p in unrep:
                    print("MODEL-PROBLEM mode=%s violated=%s errors=%s" % (p["mode"], p["violated"], p["errors"]))
                    print(p["tail"][-1500:])
                raise Infra("GCPME model reports a problem the real code does not reproduce (model error)")
        by_sid = {s["id"]: s for s in scripts}
        rcode, seen = 0, set()
        for b in mine:
            sig = tuple(sorted(b["ids"]))
            if sig in seen:
                continue
            seen.add(sig)
            evs = [l for l in open(outp) if ('"sid":"%s"' % b["sid"]) in l]
            d = vlib.save_replay(pid, "%s-%d" % (b["sid"], seed), {
                "kind": "gcpme\n", "script.ndjson": json.dumps(by_sid.get(b["sid"])) + "\n", "trace.ndjson": "".join(evs),
                "violation.json": json.dumps({"property": pid, "clauses": b["ids"], "script": b["sid"], "event": b["i"]}, indent=1)})
            print("VIOLATION property=%s replay=%s" % (pid, d))
            print("  clauses %s violated at event %d of script %s" % (",".join(b["ids"]), b["i"], b["sid"]))
            rcode = 1
            if len(seen) >= 4:
                break
        mycl = sorted(c for c in verdict["cnt"] if c.startswith(pid))
        samples = []
        for s in scripts[:2] + scripts[-1:]:
            evs = [json.loads(l) for l in open(outp) if ('"sid":"%s"' % s["id"]) in l][:10]
            samples.append({"script": s, "recorded": [{k: e[k] for k in ("i", "op", "res", "srv", "dials", "pools", "routes0", "routes", "settled", "gor")} for e in evs]})
        cov = {"states": max(states, 1), "transitions": max(transitions, 1), "traces_validated_against_impl": len(scripts),
               "events_validated": verdict["n"], "samples": samples, "exhaustive": False, "model_runs": stats,
               "clause_antecedent_hits": {c: verdict["cnt"][c] for c in mycl}, "vacuous_clauses": [c for c in mycl if verdict["cnt"][c] == 0],
               "model_problems": [{"mode": p["mode"], "violated": p["violated"]} for p in problems],
               "concurrent_sections": conc_sum,
               "explanation": "specs/GCPME.tla model-checked against the clauses of specs/GCPMEGhost.tla for every history up to max_events inputs over a "
                              "catalogue of valid and invalid option sets, dial failures at the 1st/2nd dial, endpoint outages and RPCs; every history replayed "
                              "on the real GCPMultiEndpoint (failing reconfigurations repeated for Go map order); clauses evaluated by TLC on the trace"}
        vlib.write_evidence(pid, tier, seed, "model_checking", cov, ASSUMPTIONS, time.time() - t0, len(mine))
        print("%s %s: scripts=%d events=%d model-states=%d clause-hits=%s" % (pid, tier, len(scripts), verdict["n"], states, {c: verdict["cnt"][c] for c in mycl}))
        return rcode
    finally:
        scratch.cleanup()
