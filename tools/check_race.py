#!/usr/bin/env python3
"""C10: data-race freedom. specs/PoolConc.tla is the model of the locking discipline: TLC checks the lockset
invariant (two steps of different goroutines that may overlap never touch one location without a common lock
unless both are atomic) and enumerates the kinds of operation pairs the concurrency contract allows to overlap.
The observation on the real code is Go's race detector: drivers built with -race run those overlaps (pool:
serialised balancer callbacks || picks || completions; MultiEndpoint: Current || reports || SetEndpoints || real
timers; GCPMultiEndpoint: RPCs || UpdateMultiEndpoints). Every race report is a violation unless it matches an
open known finding; identity of a report = unordered pair of the top frames inside the repository."""
import glob, json, os, re, sys, time
sys.path.insert(0, os.path.dirname(os.path.abspath(__file__)))
import vlib, pool, check_me
from vlib import Infra

ASSUMPTIONS = [
    "the Go race detector observes only executed accesses and keeps a bounded history per memory word: absence of a report is evidence for the executed overlaps, not a proof",
    "concurrency contract: balancer callbacks serialised (one environment goroutine); picks and completions from many goroutines; every completion callback is run once",
    "TLA+ contributes the lockset discipline model and the enumeration of overlap kinds; it cannot observe memory accesses of the real code",
]
ACCESS_RE = re.compile(r'^(?:Write|Read|Previous write|Previous read|Atomic \w+|Previous atomic \w+) at .*? by .*?:\n((?:  \S.*\n      .*\n)+)', re.M)


def parse_reports(prefix):
    txt = "".join(open(f, errors="replace").read() for f in sorted(glob.glob(prefix + "*")))
    out = []
    for bl in txt.split("WARNING: DATA RACE")[1:]:
        head = bl.split("Goroutine ")[0]
        accs = []
        for m in ACCESS_RE.finditer(head):
            frames = re.findall(r"  (\S+)\(.*\n      (\S+?):(\d+)", m.group(1))
            top = None
            for fn, path, line in frames:
                if "grpc-gcp-go" in fn and "zz_verif" not in path:
                    top = (fn.split("/")[-1], os.path.basename(path), int(line))
                    break
            if top is None and frames:
                fn, path, line = frames[0]
                top = (fn.split("/")[-1], os.path.basename(path), int(line))
            accs.append(top)
        if len(accs) >= 2:
            out.append({"pair": sorted([accs[0][0], accs[1][0]]), "where": [list(accs[0]), list(accs[1])], "text": head[:1800]})
    return out


def model_check(scratch, tier):
    """Lockset / deadlock / pool-bound model of the pool's critical sections."""
    stats = []
    for cfg in ("PoolConc_fixed.cfg",) + (("PoolConc_3picks.cfg",) if tier != "quick" else ()):
        if not os.path.exists(os.path.join(vlib.SPECS, cfg)):
            continue
        r = vlib.tlc(scratch, "PoolConc", cfg, workers=16, timeout=1500, tag=cfg[:-4])
        st = {"cfg": cfg, "distinct": r.get("distinct"), "generated": r.get("generated"), "violated": r["violated"], "deadlock": r["deadlock"],
              "errors": r["errors"][:2], "wall": round(r["wall"], 1)}
        pairs = vlib.tlc_prints(r["out"], "OVERLAPS")
        if pairs:
            st["overlap_kinds"] = json.loads(pairs[-1])
        stats.append(st)
        if r["violated"] or r["deadlock"] or r["errors"]:
            raise Infra("PoolConc model check failed (%s): %s %s\n%s" % (cfg, r["violated"], r["errors"][:2], r["out"][-2500:]))
    return stats


def run(pid, tier, seed):
    t0 = time.time()
    scratch = vlib.Scratch("race")
    try:
        mstats = model_check(scratch, tier)
        binp = pool.build_pool_harness(scratch, race=True)
        ov = vlib.make_overlay(scratch, "grpcgcp/multiendpoint", os.path.join(vlib.HARNESS, "multiendpoint"), name="ovmer")
        binme = vlib.go_test_build(scratch, "grpcgcp", "./multiendpoint", ov, "me-race.test", race=True)
        rounds = {"quick": (24, 9, 2), "thorough": (400, 90, 12)}[tier]
        reports = []
        runs = []
        for name, b, test, n, marker in (("pool", binp, "TestVerifRacePool", rounds[0], "VERIF-RACE-POOL"),
                                         ("me", binme, "TestVerifRaceME", rounds[1], "VERIF-RACE-ME"),
                                         ("gme", binp, "TestVerifRaceGME", rounds[2], "VERIF-RACE-GME")):
            log = scratch.path("race-" + name)
            rc, out = vlib.run_test_binary(b, test, {"VERIF_RACE": "1", "VERIF_SEED": str(seed), "VERIF_N": str(n),
                                                     "GORACE": "halt_on_error=0 log_path=%s" % log}, timeout=3000)
            if marker not in out:
                raise Infra("race driver %s did not complete:\n%s" % (name, out[-2500:]))
            rs = parse_reports(log)
            for r in rs:
                r["driver"] = name
            reports += rs
            runs.append({"driver": name, "rounds": n, "reports": len(rs)})
        kf = vlib.load_known_findings()
        distinct = {}
        for r in reports:
            distinct.setdefault(tuple(r["pair"]), r)
        rc = 0
        known = {}
        for pair, r in distinct.items():
            f = None
            for k in kf:
                if k.get("status") == "open" and k.get("property") == "C10" and sorted(k.get("signature", {}).get("pair", [])) == list(pair):
                    f = k
            if f:
                known[f["what"]] = known.get(f["what"], 0) + 1
                continue
            d = vlib.save_replay("C10", "%s-%d" % ("-".join(p.replace("*", "").replace("(", "").replace(")", "") for p in pair)[:80], seed),
                                 {"kind": "race\n", "script.ndjson": json.dumps({"driver": r["driver"], "seed": seed}) + "\n", "trace.ndjson": r["text"],
                                  "violation.json": json.dumps({"property": "C10", "clauses": ["C10_a"], "pair": list(pair), "where": r["where"]}, indent=1)})
            print("VIOLATION property=C10 replay=%s" % d)
            print("  data race between %s and %s (%s)" % (pair[0], pair[1], r["where"]))
            rc = 1
        for w, n in known.items():
            print("KNOWN-FINDING: property=C10 %s (matched %d times)" % (w, n))
        states = sum((s.get("distinct") or 0) for s in mstats) or 1
        trans = sum((s.get("generated") or 0) for s in mstats) or 1
        cov = {"states": states, "transitions": trans, "traces_validated_against_impl": sum(x["rounds"] for x in runs),
               "samples": [{"driver": x["driver"], "rounds": x["rounds"], "race_reports": x["reports"]} for x in runs],
               "model_runs": mstats, "race_reports": len(reports), "distinct_pairs": [list(p) for p in distinct], "known_findings_matched": known,
               "exhaustive": False,
               "explanation": "lockset/deadlock/pool-bound model of the pool's critical sections checked by TLC (specs/PoolConc.tla); the overlap kinds it "
                              "allows are run by drivers built with -race; every race report of the detector is a violation"}
        vlib.write_evidence("C10", tier, seed, "model_checking", cov, ASSUMPTIONS, time.time() - t0, rc)
        print("C10 %s: drivers=%s reports=%d distinct-pairs=%d" % (tier, runs, len(reports), len(distinct)))
        return rc
    finally:
        scratch.cleanup()
