#!/usr/bin/env python3
"""dev helper: run a script file through the pool harness and the trace validator"""
import sys, os, shutil, json
sys.path.insert(0, os.path.dirname(os.path.abspath(__file__)))
import vlib
def main():
    scripts = sys.argv[1]
    s = vlib.Scratch('smoke')
    try:
        ov = vlib.make_overlay(s, 'grpcgcp', vlib.HARNESS + '/grpcgcp', rewrite=['gcp_balancer.go', 'gcp_picker.go'])
        b = vlib.go_test_build(s, 'grpcgcp', '.', ov, 'pool.test')
        tr = s.path('trace.ndjson')
        rc, out = vlib.run_test_binary(b, 'TestVerifPool', {'VERIF_IN': os.path.abspath(scripts), 'VERIF_OUT': tr})
        print(rc, out)
        wd = s.sub('tlc-PoolTrace-PoolTrace'); shutil.copy(tr, wd + '/trace.ndjson')
        if len(sys.argv) > 2: shutil.copy(tr, sys.argv[2])
        r = vlib.tlc(s, 'PoolTrace', 'PoolTrace.cfg', workers=1)
        v = vlib.tlc_prints(r['out'], 'VERDICT')
        if v:
            d = json.loads(v[0]); print('bad:', d['bad']); print({k: c for k, c in d['cnt'].items() if c})
        else:
            print(r['out'][-3000:])
    finally:
        s.cleanup()
main()
