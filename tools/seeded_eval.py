#!/usr/bin/env python3
"""Confirm and evaluate seeded changes produced by independent sub-agents.

usage: seeded_eval.py <worktree> <pid> <m1|m2|...> [--props C01,C05] [--tier quick]

In the scratch worktree (never /repo): apply the patch, build, run the unedited unit tests, run the
demonstration (must fail), revert, run the demonstration again (must pass); then run this framework's
checks against the worktree with the patch applied (VERIF_REPO=<worktree>) and record which report a
VIOLATION. Writes /verif/seeded/<pid>-<m>/{patch.diff, demo, meta.json}."""
import json, os, shutil, subprocess, sys, time, glob, re

VERIF = os.path.dirname(os.path.dirname(os.path.abspath(__file__)))
ENV = dict(os.environ, GOFLAGS="-mod=mod", GOPROXY="off", GOSUMDB="off", GOTOOLCHAIN="local")


def sh(cmd, cwd, env=None, timeout=1800):
    p = subprocess.run(cmd, cwd=cwd, env=env or ENV, shell=True, stdout=subprocess.PIPE, stderr=subprocess.STDOUT, text=True, timeout=timeout)
    return p.returncode, p.stdout


def main():
    wt, pid, m = sys.argv[1], sys.argv[2], sys.argv[3]
    props = [pid[:3]]
    tier = "quick"
    for i, a in enumerate(sys.argv):
        if a == "--props":
            props = sys.argv[i + 1].split(",")
        if a == "--tier":
            tier = sys.argv[i + 1]
    out = os.path.join(wt, "_out")
    diff = os.path.join(out, m + ".diff")
    demos = glob.glob(os.path.join(out, "zz_demo_%s_%s_test.go" % (pid[:3], m))) or glob.glob(os.path.join(out, "zz_demo_*%s*_test.go" % m))
    meta = {"id": "%s-%s" % (pid, m), "property": pid[:3], "source": "independent sub-agent given only the property text and a scratch worktree",
            "ran": []}
    notes = os.path.join(out, "notes.md")
    if os.path.exists(notes):
        meta["agent_notes_excerpt"] = open(notes).read()[:6000]
    sh("git checkout -- . && git clean -fdq -e _out", wt)
    rc, o = sh("git apply --check %s && git apply %s" % (diff, diff), wt)
    meta["ran"].append({"cmd": "git apply", "rc": rc})
    if rc != 0:
        meta["confirmed"] = False
        meta["why"] = "patch does not apply: " + o[-500:]
        return finish(meta, out, diff, demos, pid, m)
    base_pid = pid[:3]
    moddir = {"C18": "spanner_prober", "C19": "e2e-checksum"}.get(base_pid, "grpcgcp")
    rc, o = sh("go build -o /dev/null ./... " if moddir != "grpcgcp" else "go build ./... ", os.path.join(wt, moddir))
    meta["ran"].append({"cmd": "go build ./... (%s)" % moddir, "rc": rc, "tail": o[-300:]})
    builds = rc == 0
    if moddir == "grpcgcp":
        ucmd = "go test -vet=off -count=1 . ./multiendpoint/"
    elif moddir == "spanner_prober":
        ucmd = "go test -vet=off -count=1 ./..."
    else:
        ucmd = "true"
    def units_ok(rc, o):
        if moddir == "spanner_prober":   # TestValidFlags/invalid_options fails on the unchanged tree already
            fails = [l for l in o.split("\n") if l.startswith("--- FAIL") or l.strip().startswith("--- FAIL")]
            return all("TestValidFlags" in l for l in fails) and "panic:" not in o and "build failed" not in o
        return rc == 0
    rc, o = sh(ucmd, os.path.join(wt, moddir))
    meta["ran"].append({"cmd": ucmd + " (with patch)", "rc": rc, "tail": o[-400:]})
    units = units_ok(rc, o)
    if not units:   # timing tests are load sensitive: one retry
        rc, o = sh(ucmd, os.path.join(wt, moddir))
        meta["ran"].append({"cmd": "retry unit tests (with patch)", "rc": rc, "tail": o[-400:]})
        units = units_ok(rc, o)
    demo_fail = demo_pass = None
    demo_dir = None
    if demos:
        src = open(demos[0]).read()
        pkg = re.search(r"^package (\w+)", src, re.M).group(1)
        demo_dir = {"grpcgcp": os.path.join(wt, "grpcgcp"), "multiendpoint": os.path.join(wt, "grpcgcp", "multiendpoint"),
                    "prober": os.path.join(wt, "spanner_prober", "prober"),
                    "main": os.path.join(wt, moddir)}.get(pkg, os.path.join(wt, "grpcgcp"))
        dst = os.path.join(demo_dir, os.path.basename(demos[0]))
        shutil.copy(demos[0], dst)
        race = " -race" if base_pid == "C10" else ""
        rc, o = sh("go test -vet=off -count=1%s -run 'Demo' ." % race, demo_dir)
        meta["ran"].append({"cmd": "demo with patch", "rc": rc, "tail": o[-600:]})
        demo_fail = rc != 0
        sh("git apply -R %s" % diff, wt)
        rc, o = sh("go test -vet=off -count=1%s -run 'Demo' ." % race, demo_dir)
        meta["ran"].append({"cmd": "demo without patch", "rc": rc, "tail": o[-300:]})
        demo_pass = rc == 0
        os.remove(dst)
        sh("git apply %s" % diff, wt)
    meta["confirmed"] = bool(builds and units and demo_fail and demo_pass)
    meta["builds"], meta["unit_tests_pass"], meta["demo_fails_with"], meta["demo_passes_without"] = builds, units, demo_fail, demo_pass
    # test_grpc (fixed port: serialised by a lock file)
    if "--grpc" in sys.argv and meta["confirmed"] and moddir == "grpcgcp":
        import fcntl
        with open("/tmp/verif-testgrpc.lock", "w") as lk:
            fcntl.flock(lk, fcntl.LOCK_EX)
            rc, o = sh("go test -vet=off -count=1 ./test_grpc/", os.path.join(wt, "grpcgcp"))
            if rc != 0:
                rc, o = sh("go test -vet=off -count=1 ./test_grpc/", os.path.join(wt, "grpcgcp"))
        meta["ran"].append({"cmd": "go test ./test_grpc/ (with patch)", "rc": rc, "tail": o[-300:]})
        meta["test_grpc_pass"] = rc == 0
    # the framework's verdicts on the patched worktree
    det = {}
    for p in props:
        env = dict(ENV, VERIF_REPO=wt, VERIF_NO_EVIDENCE="1")
        t0 = time.time()
        rc, o = sh("./check %s %s" % (p, tier), VERIF, env, timeout=7200)
        viol = [l for l in o.split("\n") if l.startswith("VIOLATION") or l.strip().startswith("clauses")]
        det[p] = {"rc": rc, "violations": viol[:6], "wall": round(time.time() - t0, 1), "tail": o[-300:] if rc == 2 else ""}
    meta["checks"] = det
    meta["detected_by"] = [p for p, d in det.items() if d["rc"] == 1]
    sh("git checkout -- . && git clean -fdq -e _out", wt)
    return finish(meta, out, diff, demos, pid, m)


def finish(meta, out, diff, demos, pid, m):
    d = os.path.join(VERIF, "seeded", "%s-%s" % (pid, m))
    os.makedirs(d, exist_ok=True)
    if os.path.exists(diff):
        shutil.copy(diff, os.path.join(d, "patch.diff"))
    for x in demos:
        shutil.copy(x, os.path.join(d, os.path.basename(x).replace("_test.go", "_test.go.txt")))
    old = {}
    mp = os.path.join(d, "meta.json")
    if os.path.exists(mp):
        old = json.load(open(mp))
        hist = old.get("history", [])
        hist.append({"at": old.get("at"), "detected_by": old.get("detected_by"), "checks": old.get("checks")})
        meta["history"] = hist[-5:]
    meta["at"] = time.strftime("%Y-%m-%dT%H:%M:%S")
    json.dump(meta, open(mp, "w"), indent=1)
    print(meta["id"], "confirmed=%s" % meta.get("confirmed"), "detected_by=%s" % meta.get("detected_by"),
          {p: (d["rc"], d["violations"][:2]) for p, d in meta.get("checks", {}).items()})
    return 0


if __name__ == "__main__":
    sys.exit(main())
