#!/usr/bin/env python3
"""Checks for the pool properties C01-C09, C17 (pool part), C20: see pool.py for the pipeline."""
import json, os, sys, time, random

sys.path.insert(0, os.path.dirname(os.path.abspath(__file__)))
import vlib, pool, conc
from vlib import Infra

# bounded exhaustive depth (max events per history) per family: quick, thorough  -- fitted to measured sizes
DEPTH = {
    "affinity": (5, 7), "affinity1": (7, 9), "growth": (7, 9), "growth2": (6, 8), "states": (5, 7),
    "refresh": (5, 7), "refresh2": (7, 9), "refreshfail": (8, 10), "fallback": (5, 6), "fallbackrefresh": (5, 6),
    "rr": (5, 6), "rrrefresh": (6, 7), "faults": (5, 7), "faultsfb": (4, 6), "config0": (5, 7), "config1": (4, 6),
    "resolver": (6, 8), "spanner": (0, 0),
    # depth counts the free inputs after the preamble
    "deep-aff": (5, 6), "deep-affref": (5, 6), "deep-refbound": (5, 6), "deep-load": (6, 8), "deep-fb": (5, 6),
    "deep-refresh": (5, 7), "deep-rr": (4, 5), "deep-ref2": (9, 12), "deep-fb2": (5, 7), "deep-fb3": (5, 7), "deep-fb4": (4, 6), "minmax": (5, 7), "deep-fb5": (5, 7),
}
SIM = {"quick": (120, 25), "thorough": (1500, 40)}

ASSUMPTIONS = [
    "the fake balancer.ClientConn/SubConn behave like gRPC 1.56.3 (NewSubConn rejects an empty address list)",
    "balancer callbacks are serialised (as gRPC does); picks and completions of this sequential pipeline do not overlap (C10 and the C03/C06 schedule checks cover overlap)",
    "virtual time: time.Now() in gcp_balancer.go/gcp_picker.go is rewritten to a virtual clock at build time, one tick per input",
    "bounded exploration: every history up to the stated number of events for the listed configurations, plus random simulation beyond",
]


def known_match(kf, pid, rec):
    """A violation matches a known finding when property, clause and the finding's signature predicate agree."""
    for f in kf:
        if f.get("status") != "open" or f.get("property") != pid:
            continue
        sig = f.get("signature", {})
        if sig.get("clause") and sig["clause"] not in rec["ids"]:
            continue
        if sig.get("tag") and sig["tag"] not in rec.get("tags", []):
            continue
        return f
    return None


def binding_demo(scratch, trace):
    """Corrupt one recorded field (the state announced by the first publication of a script prefix) and check that trace
    validation rejects the corrupted trace; a validator that accepts it would make every verdict meaningless."""
    lines = []
    for ln in open(trace):
        lines.append(ln)
        if len(lines) >= 400:
            break
    done = None
    for i, ln in enumerate(lines):
        if '"k":"st"' in ln and '"s":"READY","pk"' in ln:
            lines[i] = ln.replace('"s":"READY","pk"', '"s":"TF","pk"', 1)
            done = i
            break
    if done is None:
        return {"skipped": "no publication in the first 400 events"}
    # cut at the next script boundary so the chunk is self-contained
    end = len(lines)
    for j in range(done + 1, len(lines)):
        if '"op":"reset"' in lines[j][:90]:
            end = j
            break
    start = 0
    for j in range(done, -1, -1):
        if '"op":"reset"' in lines[j][:90]:
            start = j
            break
    p = scratch.path("binding-trace.ndjson")
    open(p, "w").writelines(lines[start:end])
    v = pool.validate_trace(scratch, p, "binding", par=1)
    hit = sorted(set(c for b in v["bad"] for c in b["ids"]))
    if not hit:
        raise Infra("binding demonstration failed: a trace with a corrupted publication was accepted")
    return {"corrupted": "first published state READY -> TF in event %d" % (done - start), "rejected_by": hit}


def run(pid, tier, seed):
    t0 = time.time()
    rnd = random.Random(seed)
    fams = pool.PROP_FAMILIES[pid]
    if tier == "quick":
        fams = [f for f in fams if f != "spanner"][:4 if pid == "C08" else 3 if pid in ("C05", "C06", "C01", "C02", "C03") else 2] + (["spanner"] if "spanner" in fams else [])
    scratch = vlib.Scratch("pool-" + pid)
    try:
        binp = pool.build_pool_harness(scratch)
        scripts = []
        mstats = []
        problems = []
        states = transitions = 0
        for f in fams:
            qd, td = DEPTH[f]
            depth = qd if tier == "quick" else td
            prelen = [0, 2, 3, 4, 5, 4, 5, 7, 9, 9, 6][pool.FAMILIES[f].get("Pre", 0)]
            if depth:
                depth += prelen
            simn, simd = SIM[tier]
            if f == "spanner":
                simn, simd = (150, 40) if tier == "quick" else (3000, 60)
            st, sc, pr = pool.model_runs(scratch, f, depth, simn // 16 + 1, simd, seed, 16,
                                         timeout=600 if tier == "quick" else 1500,
                                         script_limit=6000 if tier == "quick" else 60000, sim_workers=16,
                                         props=["P" + pid[1:]])
            mstats.append(st)
            scripts += sc
            problems += pr
            if "bfs" in st and st["bfs"].get("distinct"):
                states += st["bfs"]["distinct"]
                transitions += st["bfs"]["generated"]
            if "sim" in st and st["sim"].get("generated"):
                transitions += st["sim"]["generated"]
        if pid in ("C03", "C06"):
            # concurrency model of the growth path: pool bound, no self-locking, every pick finishes (specs/PoolConc.tla)
            for cfgc in ("PoolConc_fixed.cfg",) + (("PoolConc_3picks.cfg",) if tier != "quick" else ()):
                rc_ = vlib.tlc(scratch, "PoolConc", cfgc, workers=8, timeout=900, tag=cfgc[:-4])
                mstats.append({"family": "PoolConc/" + cfgc, "bfs": {"distinct": rc_.get("distinct"), "generated": rc_.get("generated"),
                                                                     "wall": rc_["wall"], "violated": rc_["violated"]}})
                states += rc_.get("distinct") or 0
                transitions += rc_.get("generated") or 0
                if rc_["violated"] or rc_["errors"]:
                    raise Infra("PoolConc (%s) fails on the repaired design: %s %s" % (cfgc, rc_["violated"], rc_["errors"][:2]))
        cex_ids = []
        for k, pr in enumerate(problems):
            for cs in pr.get("cex_scripts", []):
                cs["id"] = "cex-%d-%s" % (k, cs["id"])
                scripts.append(cs)
                cex_ids.append(cs["id"])
        scripts += pool.load_seed_scripts()
        inp, tr0 = pool.run_scripts(scratch, binp, scripts, "run")
        # adaptive random driver: long histories chosen from the actual state of the run
        jobs = pool.random_jobs(pid, tier, seed)
        jinp, tr1 = pool.run_random(scratch, binp, jobs)
        tr = scratch.path("all-trace.ndjson")
        with open(tr, "w") as fo:
            for pth in (tr0, tr1):
                with open(pth) as fi:
                    for ln in fi:
                        fo.write(ln)
        for j in jobs:
            scripts.append({"id": j["id"], "random_job": j})
        if pid in ("C02", "C03", "C04"):
            # schedule stress (yields with random sleeps in front of every lock acquisition): concurrent picks on different pickers
            # around the growth decision (PoolConc's interleaving), and full concurrent rounds followed by consistency facts
            bing = pool.build_pool_harness(scratch, gates=True)
            nst = 0
            if pid == "C03":
                strp = scratch.path("stress-trace.ndjson")
                rcs, outs = vlib.run_test_binary(bing, "TestVerifStressGrowth", {"VERIF_OUT": strp, "VERIF_SEED": str(seed),
                                                                                "VERIF_N": "60" if tier == "quick" else "1500"}, timeout=3000)
                if "VERIF-STRESS-GROWTH" not in outs:
                    raise Infra("growth stress driver failed:\n" + outs[-2500:])
                with open(tr, "a") as fo:
                    for ln in open(strp):
                        fo.write(ln)
                        nst += 1
            conp = scratch.path("conc-trace.ndjson")
            rcs, outs = vlib.run_test_binary(bing, "TestVerifRacePool", {"VERIF_RACE": "1", "VERIF_JITTER": "1", "VERIF_OUT": conp, "VERIF_SEED": str(seed),
                                                                        "VERIF_N": "16" if tier == "quick" else "400"}, timeout=3000)
            if "VERIF-RACE-POOL" not in outs:
                raise Infra("concurrent stress driver failed:\n" + outs[-2500:])
            with open(tr, "a") as fo:
                for ln in open(conp):
                    fo.write(ln)
            scripts.append({"id": "stress-0", "stress": "growth/conc", "seed": seed})
            scripts.append({"id": "conc-0", "stress": "conc", "seed": seed})
        if pid == "C09":
            # concurrent round-robin BINDs and the 2^31 boundary of the cursor (stress events judged by C09_s in PoolTrace)
            rrp = scratch.path("rr-trace.ndjson")
            rcs, outs = vlib.run_test_binary(binp, "TestVerifStressRR", {"VERIF_OUT": rrp, "VERIF_SEED": str(seed),
                                                                         "VERIF_N": "12" if tier == "quick" else "200"}, timeout=3000)
            if "VERIF-STRESS-RR" not in outs:
                raise Infra("round-robin stress driver failed:\n" + outs[-2500:])
            with open(tr, "a") as fo:
                for ln in open(rrp):
                    fo.write(ln)
            scripts.append({"id": "rr-0", "stress": "rr", "seed": seed})
        verdict = pool.validate_trace(scratch, tr, "tv")
        # --- concurrent sections: TLC-enumerated gate schedules (specs/LockSched.tla) replayed on the real code, judged through
        # their linearizations by the same clauses (tools/conc.py)
        conc_sum = None
        cr = conc.run(scratch, pid, tier, seed)
        if cr:
            conc_sum = dict(cr["summary"], model_runs=cr["stats"])
            verdict["bad"] += conc.for_property(cr["bad"], pid)
            for c_, n_ in cr["cnt"].items():
                verdict["cnt"][c_] = verdict["cnt"].get(c_, 0) + n_
            verdict["n"] += cr["n"]
            for sid_, sc_ in cr["scripts"].items():
                if sid_ in cr["traces"]:
                    scripts.append(sc_)
            scripts.append({"id": "conc-sections", "scenarios": cr["summary"]["scenarios"], "schedules": cr["summary"]["schedules_replayed"]})
            with open(tr, "a") as fo:
                for sid_, lns_ in cr["traces"].items():
                    fo.writelines(lns_)
            for st_ in cr["stats"]:
                states += st_.get("distinct") or 0
                transitions += st_.get("generated") or 0
        text_stats = None
        if pid == "C17":
            # configuration text: TLC-enumerated configuration records rendered as JSON, parsed by the real ParseConfig,
            # re-evaluated by TLC (specs/Config.tla, ConfigTrace.tla); GCPMultiEndpoint copy semantics
            import check_func
            tv, tn, ttr, tgen = check_func.run_c17_text(scratch, binp, tier, seed)
            text_stats = {"vectors": tn, "clause_hits": tv["cnt"]}
            tlines = {}
            for x in open(ttr):
                try:
                    tlines[json.loads(x).get("id")] = x
                except ValueError:
                    pass
            for b in tv["bad"]:
                sid = "cfgvec-%s" % b["i"]
                scripts.append({"id": sid, "config_vector": json.loads(tlines.get(b["i"], "{}"))})
                verdict["bad"].append(dict(b, sid=sid, i=0))
                with open(tr, "a") as fo:
                    fo.write(json.dumps({"sid": sid, "op": "cfgvec", "vector": json.loads(tlines.get(b["i"], "{}"))}) + "\n")
            for c, n in tv["cnt"].items():
                verdict["cnt"][c] = verdict["cnt"].get(c, 0) + n
            verdict["n"] += tv["n"]
        # --- drift monitor: the recorded traces replayed through the mechanism layer (specs/PoolConform.tla); never a verdict
        drift = {"scripts_conforming": 0, "drift": 0, "events": 0, "first_drifts": []}
        t_d = time.time()
        groups = {}
        for ln in open(tr0):
            sid = ln[8:ln.index('"', 8)] if ln.startswith('{"sid":"') else ""
            fam_ = sid.rsplit("-", 2)[0] if sid.count("-") >= 2 else ""
            if fam_ in pool.FAMILIES:
                groups.setdefault(("fam", fam_), []).append(ln)
        for ln in open(tr1):
            sid = ln[8:ln.index('"', 8)] if ln.startswith('{"sid":"') else ""
            if sid.startswith("rnd-"):
                combo = sid[4:].rsplit("-", 1)[0]
                if combo in pool.RANDOM_COMBOS:
                    groups.setdefault(("rnd", combo), []).append(ln)
        for (kind, name), lns in sorted(groups.items()):
            # whole scripts only, at most ~12k events per group
            cut = len(lns)
            lim_ = 2000 if tier == "quick" else 40000
            if cut > lim_:
                cut = lim_
                while cut < len(lns) and '"op":"reset"' not in lns[cut][:90]:
                    cut += 1
            gp = scratch.path("conf-%s-%s.ndjson" % (kind, name))
            open(gp, "w").writelines(lns[:cut])
            if kind == "fam":
                r_ = pool.conform(scratch, name, gp)
            else:
                c_ = pool.RANDOM_COMBOS[name][0]
                r_ = pool.conform(scratch, "spanner", gp, consts_override=dict(CfgMin=c_["min"], CfgMax=c_["max"], CfgWm=c_["wm"], CfgFb=c_["fb"],
                                                                               CfgUc=c_["uc"], CfgUms=c_["ums"], CfgRr=c_["rr"]))
            for k_ in ("scripts_conforming", "drift", "events"):
                drift[k_] += r_[k_]
            for d_ in r_["first_drifts"][:2]:
                drift["first_drifts"].append(dict(d_, group=name))
        drift["wall"] = round(time.time() - t_d, 1)
        drift["first_drifts"] = drift["first_drifts"][:6]
        if drift["drift"]:
            print("MODEL-DRIFT property=%s: %d of %d replayed scripts are not behaviours of specs/Pool.tla (first: %s)" % (
                pid, drift["drift"], drift["drift"] + drift["scripts_conforming"],
                [(d_["group"], d_["sid"], d_["i"], d_["op"]) for d_ in drift["first_drifts"][:3]]))
        # --- binding demonstration: corrupt one recorded field of a real trace prefix and require that the clauses reject it
        binding = binding_demo(scratch, tr0)
        # --- violations of this property's clauses
        mine = []
        for b in verdict["bad"]:
            ids = [c for c in b["ids"] if pool.PROP_OF_CLAUSE(c) == pid]
            if ids:
                mine.append(dict(b, ids=ids))
        kf = vlib.load_known_findings()
        by_sid = {s["id"]: s for s in scripts}
        reported, known_hits = [], {}
        for b in mine:
            f = known_match(kf, pid, b)
            if f:
                known_hits.setdefault(f["what"], 0)
                known_hits[f["what"]] += 1
                continue
            reported.append(b)
        rc = 0
        # unreproduced model counterexamples are model errors, not verdicts
        if problems:
            bad_sids = set(b["sid"] for b in verdict["bad"])
            unrep = [p for p in problems if not any(c["id"] in bad_sids for c in p.get("cex_scripts", []))]
            if unrep and not reported:
                for p in unrep:
                    print("MODEL-PROBLEM family=%s mode=%s violated=%s errors=%s" % (p["family"], p["mode"], p["violated"], p["errors"]))
                    print(p["tail"][-1500:])
                raise Infra("the mechanism model reports a problem that the real code does not reproduce (model error)")
        for w, n in known_hits.items():
            print("KNOWN-FINDING: property=%s %s (matched %d times)" % (pid, w, n))
        seen_sig = set()
        for b in reported[:5]:
            sig = (tuple(b["ids"]),)
            if sig in seen_sig:
                continue
            seen_sig.add(sig)
            sc = by_sid.get(b["sid"])
            if sc is None and b["sid"].split("-")[0] in ("rr", "stress", "conc"):
                sc = {"id": b["sid"], "stress": {"rr": "rr", "stress": "growth", "conc": "conc"}[b["sid"].split("-")[0]], "seed": seed}
            evs = [l for l in open(tr) if ('"sid":"%s"' % b["sid"]) in l]
            d = vlib.save_replay(pid, "%s-%d" % (b["sid"], seed), {
                "script.ndjson": json.dumps(sc) + "\n",
                "trace.ndjson": "".join(evs),
                "violation.json": json.dumps({"property": pid, "clauses": b["ids"], "script": b["sid"], "event": b["i"]}, indent=1)})
            print("VIOLATION property=%s replay=%s" % (pid, d))
            print("  clauses %s violated at event %d of script %s" % (",".join(b["ids"]), b["i"], b["sid"]))
            rc = 1
        # --- evidence
        myclauses = sorted(c for c in verdict["cnt"] if pool.PROP_OF_CLAUSE(c) == pid)
        sample = []
        for s in scripts[:2] + scripts[-1:]:
            evs = [json.loads(l) for l in open(tr) if ('"sid":"%s"' % s["id"]) in l][:12]
            sample.append({"script": s, "recorded": [{k: e[k] for k in ("i", "t", "op", "res", "rc", "rn", "cc") if k in e} for e in evs]})
        cov = {
            "states": max(states, 1), "transitions": max(transitions, 1),
            "traces_validated_against_impl": len(scripts),
            "random_driver_runs": len(jobs),
            "events_validated": verdict["n"],
            "samples": sample,
            "exhaustive": False,
            "model_runs": mstats,
            "clause_antecedent_hits": {c: verdict["cnt"][c] for c in myclauses},
            "vacuous_clauses": [c for c in myclauses if verdict["cnt"][c] == 0],
            "violations_all_clauses": len(verdict["bad"]),
            "model_problems": [{"family": p["family"], "mode": p["mode"], "violated": p["violated"]} for p in problems],
            "known_findings_matched": known_hits,
            "config_text": text_stats,
            "binding_demo": binding,
            "mechanism_conformance": drift,
            "concurrent_sections": conc_sum,
            "explanation": "TLC checks mechanism => clauses on specs/Pool.tla for every history up to max_events events per family "
                           "(states/transitions) and simulates deeper; every generated history is executed against the real balancer/picker "
                           "and TLC evaluates the clauses of specs/PoolGhost.tla on every recorded event (specs/PoolTrace.tla).",
        }
        vlib.write_evidence(pid, tier, seed, "model_checking", cov, ASSUMPTIONS, time.time() - t0, len(reported))
        vac = cov["vacuous_clauses"]
        print("%s %s: families=%s scripts=%d events=%d model-states=%d clause-hits=%s%s" % (
            pid, tier, ",".join(fams), len(scripts), verdict["n"], states,
            {c: verdict["cnt"][c] for c in myclauses}, (" VACUOUS=" + ",".join(vac)) if vac else ""))
        return rc
    finally:
        scratch.cleanup()
