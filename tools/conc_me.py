#!/usr/bin/env python3
"""Concurrent sections of MultiEndpoint: the same scheme as conc.py (lock profiles from a solo run -> LockSched.tla ->
schedules replayed gate to gate on the real code -> linearizations judged by the property layer), for SetEndpoints /
SetEndpointAvailability / Current running concurrently on one MultiEndpoint (the way GCPMultiEndpoint's monitors and
UpdateMultiEndpoints use it).

In a linearization only the last operation of the section carries the Current() observed at quiescence; the others are
written with cur = "?" and MEGhost assumes for them what the statement requires (sections use no switching delay and
no pending timer callbacks, where the statement determines Current() exactly), so a section is explained iff some
order of its operations, each behaving as the statement says, leads to what was observed afterwards."""
import itertools, json, os, sys, time
from concurrent.futures import ThreadPoolExecutor

sys.path.insert(0, os.path.dirname(os.path.abspath(__file__)))
import vlib, conc
from vlib import Infra


def SET(*eps):
    return {"op": "set", "eps": list(eps)}


def AV(e, b):
    return {"op": "avail", "e": e, "b": b}


def CUR():
    return {"op": "cur"}


def TICK(n):
    return {"op": "tick", "n": n}


# name -> (cfg, preamble, concurrent operations, epilogue); d = 0 everywhere (see module comment)
SCENARIOS = {
    "set-set": ({"eps": ["a", "b"], "r": 0, "d": 0}, [], [SET("a", "b", "c"), SET("a")], [AV("b", True), AV("c", True), CUR(), AV("a", True)]),
    "set-avail": ({"eps": ["a", "b"], "r": 0, "d": 0}, [AV("b", True)], [SET("b", "c"), AV("a", True), AV("c", True)], [CUR(), AV("b", False), CUR()]),
    "avail-avail": ({"eps": ["a", "b", "c"], "r": 0, "d": 0}, [AV("c", True)], [AV("a", True), AV("a", False), AV("b", True)], [CUR(), AV("b", False), CUR()]),
    "set-reorder": ({"eps": ["a", "b", "c"], "r": 0, "d": 0}, [AV("b", True), AV("c", True)], [SET("c", "b", "a"), SET("b", "c"), CUR()], [CUR(), AV("c", False), CUR()]),
    "recovery-set": ({"eps": ["a", "b"], "r": 3, "d": 0}, [AV("a", True), AV("b", True)], [AV("a", False), SET("b", "a"), AV("a", True)], [CUR(), TICK(4), CUR()]),
}
PROP_SCENARIOS = {"C13": ["set-set", "set-avail", "avail-avail", "set-reorder"], "C14": ["recovery-set", "set-reorder"]}


def build(scratch):
    ov = vlib.make_overlay(scratch, "grpcgcp/multiendpoint", os.path.join(vlib.HARNESS, "multiendpoint"), rewrite=["multiendpoint.go"], gates=True,
                           name="ovmeg", virtual_time=False)
    return vlib.go_test_build(scratch, "grpcgcp", "./multiendpoint", ov, "me-g.test")


def run_scripts(scratch, binp, scripts, name):
    inp, outp = scratch.path(name + "-scripts.ndjson"), scratch.path(name + "-trace.ndjson")
    with open(inp, "w") as f:
        for s in scripts:
            f.write(json.dumps(s) + "\n")
    rc, out = vlib.run_test_binary(binp, "TestVerifME", {"VERIF_IN": inp, "VERIF_OUT": outp})
    if rc != 0 or "VERIF-ME" not in out:
        raise Infra("ME harness (gate build) failed:\n" + out[-3000:])
    return outp


def script_of(name, sched, sid):
    cfg, pre, procs, post = SCENARIOS[name]
    return {"id": sid, "cfg": cfg, "steps": list(pre) + [{"op": "conc", "procs": procs, "sched": sched}] + list(post)}


def orders(e):
    subs, ivs = e["sub"], e["ivs"]
    idx = [k for k in range(len(subs)) if subs[k]["res"] != "SKIPPED"]
    res = []
    for perm in itertools.permutations(idx):
        pos = {k: i for i, k in enumerate(perm)}
        if all(not (ivs[a][1] < ivs[b][0] and pos[a] > pos[b]) for a in idx for b in idx if a != b):
            res.append(perm)
    return res


def linearizations(events, after):
    """after: the event following the section gives Current() at quiescence (the section's own final event fields)"""
    outs = [[]]
    for e in events:
        if e["op"] != "conc":
            for o in outs:
                o.append(e)
            continue
        new = []
        for o in outs:
            for perm in orders(e) or [tuple(range(len(e["sub"])))]:
                seq = list(o)
                for j, k in enumerate(perm):
                    sub = dict(e["sub"][k])
                    for f in ("sub", "ivs", "locks", "exec", "drift"):
                        sub.pop(f, None)
                    sub["now"], sub["due"], sub["live"] = e["now"], e["due"], e["live"]
                    sub["cur"] = e["cur"] if j == len(perm) - 1 else "?"
                    if sub.get("cfg", {}).get("eps") is None:
                        sub["cfg"] = dict(sub.get("cfg") or {}, eps=[])
                    if sub.get("eps") is None:
                        sub["eps"] = []
                    seq.append(sub)
                new.append(seq)
        outs = new[:48]
    return outs


def run(scratch, pid, tier, seed, validate):
    t0 = time.time()
    names = PROP_SCENARIOS.get(pid, [])
    if not names:
        return None
    binp = build(scratch)
    solo = [script_of(n, [p for p in range(1, len(SCENARIOS[n][2]) + 1) for _ in range(8)], "solo-" + n) for n in names]
    by = conc.sections(run_scripts(scratch, binp, solo, "meconc-solo"))
    profs = {}
    for n in names:
        pr = conc.profiles(by.get("solo-" + n, []))
        if pr is None:
            raise Infra("no concurrent section recorded for ME scenario " + n)
        profs[n] = pr
    maxpre, limit = (2, 60) if tier == "quick" else (4, 4000)
    with ThreadPoolExecutor(max_workers=8) as ex:
        res = list(ex.map(lambda n: conc.schedules(scratch, "me-" + n, profs[n], maxpre, limit, seed), names))
    scripts, stats = [], []
    for n, (sch, st) in zip(names, res):
        stats.append(st)
        for j, x in enumerate(sch):
            scripts.append(script_of(n, x["s"], "mc-%s-%d%s" % (n, j, "d" if x["dead"] else "")))
    by2 = conc.sections(run_scripts(scratch, binp, scripts, "meconc-run"))
    by2.update(by)
    lin_path = scratch.path("meconc-lin.ndjson")
    lin_of = {}
    with open(lin_path, "w") as fo:
        for sid, evs in by2.items():
            for j, seq in enumerate(linearizations(evs, None)):
                lsid = "%s~%d" % (sid, j)
                lin_of.setdefault(sid, []).append(lsid)
                for e in seq:
                    fo.write(json.dumps(dict(e, sid=lsid), separators=(",", ":")) + "\n")
    verdict = validate(scratch, lin_path)
    bad_by = {}
    for b in verdict["bad"]:
        bad_by.setdefault(b["sid"], []).append(b)
    bad, explained = [], 0
    for sid, lsids in lin_of.items():
        if any(l not in bad_by for l in lsids):
            explained += 1
            continue
        per = [sorted(set(c for b in bad_by[l] for c in b["ids"])) for l in lsids]
        best = min(lsids, key=lambda l: (len(set(c for b in bad_by[l] for c in b["ids"])), l))
        bad.append({"sid": sid, "i": bad_by[best][0]["i"], "ids": sorted(set(c for b in bad_by[best] for c in b["ids"])), "per_order": per,
                    "orders": len(lsids)})
    hangs = sum(1 for evs in by2.values() for e in evs if e["op"] == "conc" and e["res"] == "HANG")
    all_scripts = {s["id"]: s for s in solo + scripts}
    traces = {sid: [json.dumps(e) + "\n" for e in evs] for sid, evs in by2.items() if any(b["sid"] == sid for b in bad)}
    return {"bad": bad, "cnt": verdict["cnt"], "n": verdict["n"], "stats": stats, "scripts": all_scripts, "traces": traces,
            "summary": {"scenarios": names, "schedules_replayed": len(scripts), "sections_explained": explained, "sections_unexplained": len(bad),
                        "linearizations_validated": sum(len(v) for v in lin_of.values()), "real_deadlocks": hangs,
                        "wall": round(time.time() - t0, 1)}}


if __name__ == "__main__":
    import check_me
    s = vlib.Scratch("meconc")
    try:
        r = run(s, sys.argv[1], sys.argv[2] if len(sys.argv) > 2 else "quick", 1, check_me.validate)
        print(json.dumps(r["summary"], indent=1))
        print(json.dumps(r["stats"]))
        for b in r["bad"][:8]:
            print("UNEXPLAINED", b)
            print("   ", json.dumps(r["scripts"][b["sid"]]["steps"])[:500])
    finally:
        s.cleanup()
