#!/usr/bin/env python3
"""MANIFEST.setup_cmd: verify the toolchain and warm the Go build cache (offline)."""
import os, sys, subprocess
sys.path.insert(0, os.path.dirname(os.path.abspath(__file__)))
import vlib
def main():
    for tool in (["go", "version"], ["java", "-version"]):
        subprocess.run(tool, env=vlib.GOENV, stdout=subprocess.DEVNULL, stderr=subprocess.DEVNULL, check=True)
    assert os.path.exists(vlib.TLA_JAR), "tla2tools.jar missing"
    s = vlib.Scratch("setup")
    try:
        import pool, check_me
        pool.build_pool_harness(s)
        check_me.build(s)
        ov = vlib.make_overlay(s, "e2e-checksum", os.path.join(vlib.HARNESS, "e2e-checksum"), name="ovck")
        vlib.go_test_build(s, "e2e-checksum", ".", ov, "checksum.test")
        ov1 = vlib.make_overlay(s, "spanner_prober/prober", os.path.join(vlib.HARNESS, "spanner_prober_prober"), name="ovp1")
        vlib.go_test_build(s, "spanner_prober", "./prober", ov1, "prober.test")
        print("setup ok")
    finally:
        s.cleanup()
main()
