#!/usr/bin/env python3
"""Concurrent sections of GCPMultiEndpoint: RPCs running while one UpdateMultiEndpoints is applied, scheduled gate to gate
(acquisitions and releases of gme.mu in the rewritten gcp_multiendpoint.go) by specs/LockSched.tla, judged through their
linearizations by specs/GCPMETrace.tla. An RPC changes nothing, so in a linearization an RPC placed before the update
carries the snapshot (routes, pools, connections) recorded before the section and one placed after it the snapshot
recorded at quiescence."""
import itertools, json, os, sys, time
from concurrent.futures import ThreadPoolExecutor

sys.path.insert(0, os.path.dirname(os.path.abspath(__file__)))
import vlib, pool, conc
from vlib import Infra


def ME(name, *eps):
    return {"name": name, "eps": list(eps)}


def NEW(mes, d):
    return {"op": "new", "mes": mes, "def": d, "faildial": 0}


def UPD(mes, d, fd=0):
    return {"op": "update", "mes": mes, "def": d, "faildial": fd}


def RPC(name="", stream=False):
    return {"op": "rpc", "name": name, "stream": stream}


SCENARIOS = {
    # the default MultiEndpoint's only endpoint is replaced while calls are being routed
    "swap-endpoint": ([NEW([ME("m1", "a")], "m1")], [RPC("", True), UPD([ME("m1", "b")], "m1"), RPC("m1")], [RPC(""), {"op": "close"}]),
    # the default MultiEndpoint is renamed and moved to another endpoint
    "rename-default": ([NEW([ME("m1", "a"), ME("m2", "b")], "m1")], [RPC(""), UPD([ME("m3", "c"), ME("m2", "b")], "m3"), RPC("m2", True)],
                       [RPC("", True), RPC("m1"), {"op": "close"}]),
    # a rejected update (failing dial) next to calls
    "rejected": ([NEW([ME("m1", "a", "b")], "m1")], [RPC(""), UPD([ME("m1", "c", "a")], "m1", 1), RPC("zz")], [RPC(""), {"op": "close"}]),
    # the update drops a pool whose connection the application already closed (its Close fails) while calls are being routed
    "drop-severed": ([NEW([ME("m1", "a", "b")], "m1"), {"op": "sever", "e": "a"}], [RPC(""), UPD([ME("m1", "b", "c")], "m1"), RPC("m1", True)],
                     [RPC(""), {"op": "close"}]),
    # Close while calls are being routed: no call may panic or hang, every pool is closed and no goroutine is left
    "close-rpc": ([NEW([ME("m1", "a", "b"), ME("m2", "b")], "m1")], [RPC(""), {"op": "close"}, RPC("m2", True)], [RPC("")]),
}
PROP_SCENARIOS = {"C15": ["swap-endpoint", "rename-default"], "C16": ["swap-endpoint", "rename-default", "rejected", "drop-severed", "close-rpc"]}


def script_of(name, sched, sid):
    pre, procs, post = SCENARIOS[name]
    return {"id": sid, "r": 0, "d": 0, "steps": list(pre) + [{"op": "conc", "procs": procs, "sched": sched}] + list(post)}


def run_scripts(scratch, binp, scripts, name):
    inp, outp = scratch.path(name + "-scripts.ndjson"), scratch.path(name + "-trace.ndjson")
    with open(inp, "w") as f:
        for s in scripts:
            f.write(json.dumps(s) + "\n")
    rc, out = vlib.run_test_binary(binp, "TestVerifGME", {"VERIF_IN": inp, "VERIF_OUT": outp}, timeout=1500)
    if rc != 0 or "VERIF-GME" not in out:
        raise Infra("GCPME harness (gate build) failed:\n" + out[-3000:])
    return outp


def linearizations(events):
    outs = [[]]
    prev = None
    for e in events:
        if e["op"] != "conc":
            for o in outs:
                o.append(e)
            prev = e
            continue
        subs, ivs = e["sub"], e["ivs"]
        idx = [k for k in range(len(subs)) if subs[k]["res"] != "SKIPPED"]
        perms = []
        for perm in itertools.permutations(idx):
            pos = {k: i for i, k in enumerate(perm)}
            if all(not (ivs[a][1] < ivs[b][0] and pos[a] > pos[b]) for a in idx for b in idx if a != b):
                perms.append(perm)
        new = []
        for o in outs:
            for perm in perms or [tuple(idx)]:
                seq = list(o)
                seen_update = False
                for k in perm:
                    sub = dict(subs[k])
                    for f in ("sub", "ivs", "locks", "exec", "drift"):
                        sub.pop(f, None)
                    snap = e if (seen_update or sub["op"] in ("update", "close")) else prev
                    for f in ("conns", "pools", "routes", "settled", "gor"):
                        sub[f] = snap[f]
                    sub["routes0"] = e["routes0"] if sub["op"] == "update" else snap["routes"]
                    if sub["op"] == "rpc":
                        # a call that overlaps a reconfiguration may lose its pool while in flight: the clauses that demand success
                        # (antecedent `settled`) are for calls issued in a settled system; routing of a successful call and the absence
                        # of panics are still judged
                        sub["settled"] = False
                    for f in ("dials", "mes"):
                        if sub.get(f) is None:
                            sub[f] = []
                    if sub["op"] in ("update", "close"):
                        seen_update = True
                    seq.append(sub)
                new.append(seq)
        outs = new[:48]
        prev = e
    return outs


def run(scratch, pid, tier, seed):
    t0 = time.time()
    names = PROP_SCENARIOS.get(pid, [])
    if not names:
        return None
    binp = pool.build_pool_harness(scratch, gates=True)
    solo = [script_of(n, [p for p in range(1, len(SCENARIOS[n][1]) + 1) for _ in range(10)], "solo-" + n) for n in names]
    by = conc.sections(run_scripts(scratch, binp, solo, "gconc-solo"))
    profs = {}
    for n in names:
        pr = conc.profiles(by.get("solo-" + n, []))
        if pr is None:
            raise Infra("no concurrent section recorded for GCPME scenario " + n)
        profs[n] = pr
    maxpre, limit = (2, 30) if tier == "quick" else (3, 400)
    with ThreadPoolExecutor(max_workers=8) as ex:
        res = list(ex.map(lambda n: conc.schedules(scratch, "gme-" + n, profs[n], maxpre, limit, seed), names))
    scripts, stats = [], []
    for n, (sch, st) in zip(names, res):
        stats.append(st)
        for j, x in enumerate(sch):
            scripts.append(script_of(n, x["s"], "gc-%s-%d%s" % (n, j, "d" if x["dead"] else "")))
    by2 = conc.sections(run_scripts(scratch, binp, scripts, "gconc-run"))
    by2.update(by)
    lin_path = scratch.path("gconc-lin.ndjson")
    lin_of = {}
    with open(lin_path, "w") as fo:
        for sid, evs in by2.items():
            for j, seq in enumerate(linearizations(evs)):
                lsid = "%s~%d" % (sid, j)
                lin_of.setdefault(sid, []).append(lsid)
                for e in seq:
                    fo.write(json.dumps(dict(e, sid=lsid), separators=(",", ":")) + "\n")
    verdict = vlib.validate_chunks(scratch, lin_path, "GCPMETrace", lambda ln: '"op":"reset"' in ln[:80], tag="gctv", min_chunk=800)
    bad_by = {}
    for b in verdict["bad"]:
        bad_by.setdefault(b["sid"], []).append(b)
    bad, explained = [], 0
    for sid, lsids in lin_of.items():
        if any(l not in bad_by for l in lsids):
            explained += 1
            continue
        per = [sorted(set(c for b in bad_by[l] for c in b["ids"])) for l in lsids]
        best = min(lsids, key=lambda l: (len(set(c for b in bad_by[l] for c in b["ids"])), l))
        bad.append({"sid": sid, "i": bad_by[best][0]["i"], "ids": sorted(set(c for b in bad_by[best] for c in b["ids"])), "per_order": per,
                    "orders": len(lsids)})
    all_scripts = {s["id"]: s for s in solo + scripts}
    traces = {sid: [json.dumps(e) + "\n" for e in evs] for sid, evs in by2.items() if any(b["sid"] == sid for b in bad)}
    return {"bad": bad, "cnt": verdict["cnt"], "n": verdict["n"], "stats": stats, "scripts": all_scripts, "traces": traces,
            "summary": {"scenarios": names, "schedules_replayed": len(scripts), "sections_explained": explained, "sections_unexplained": len(bad),
                        "linearizations_validated": sum(len(v) for v in lin_of.values()), "wall": round(time.time() - t0, 1)}}


if __name__ == "__main__":
    s = vlib.Scratch("gconc")
    try:
        r = run(s, sys.argv[1], sys.argv[2] if len(sys.argv) > 2 else "quick", 1)
        print(json.dumps(r["summary"], indent=1))
        print(json.dumps(r["stats"]))
        for b in r["bad"][:8]:
            print("UNEXPLAINED", b)
            print("   ", json.dumps(r["scripts"][b["sid"]]["steps"])[:500])
    finally:
        s.cleanup()
