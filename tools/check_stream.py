#!/usr/bin/env python3
"""C12: interceptors. TLC on specs/Stream.tla (mechanism => clauses of StreamGhost; liveness; script
generation) -> scripts executed on the real gcpClientStream / unary interceptor (gated fake streamer,
goroutine park detection) -> recorded trace -> TLC on specs/StreamTrace.tla."""
import json, os, sys, time, random, re

sys.path.insert(0, os.path.dirname(os.path.abspath(__file__)))
import vlib, pool
from vlib import Infra

ASSUMPTIONS = [
    "gRPC's contract: at most one goroutine calls SendMsg and one calls RecvMsg at a time (threads S and R); Header/Trailer/Context may come from a third goroutine",
    "an input's effects are recorded after every started call has returned or is parked in a blocking primitive (wait reason from runtime.Stack, sampled repeatedly)",
    "the fake grpc.Streamer is a gate released by the script; the underlying fake stream answers immediately",
]


def write_cfg(path, depth, maxmsg, mode, liveness=False):
    lines = ["CONSTANTS", " MaxDepth = %d" % depth, " MaxMsg = %d" % maxmsg, " UseFail = TRUE", " UseX = TRUE", " UseGate = TRUE"]
    if liveness:
        lines += ["SPECIFICATION FairSpec", "CHECK_DEADLOCK FALSE", "PROPERTIES RecvReturns"]
    else:
        lines += ["INIT Init", "NEXT Next", "CHECK_DEADLOCK FALSE"]
        if mode == "bfs":
            lines += ["VIEW View", "INVARIANTS TypeOK NoLostWakeup EmitBfs"]
        else:
            lines += ["CONSTRAINT EmitSim", "INVARIANTS TypeOK NoLostWakeup"]
        lines += ["PROPERTIES PAll"]
    open(path, "w").write("\n".join(lines) + "\n")


def run(pid, tier, seed):
    t0 = time.time()
    scratch = vlib.Scratch("stream")
    try:
        binp = pool.build_pool_harness(scratch)      # same package: one test binary serves pool and stream harnesses
        depth, maxmsg = (7, 3) if tier == "quick" else (10, 4)
        problems, stats = [], []
        cfgp = scratch.path("Stream_bfs.cfg")
        write_cfg(cfgp, depth, maxmsg, "bfs")
        cex = scratch.path("cex-stream.json")
        r = vlib.tlc(scratch, "Stream", cfgp, workers=16, timeout=900, tag="stream-bfs", extra=["-dumpTrace", "json", cex])
        states, transitions = r.get("distinct") or 0, r.get("generated") or 0
        stats.append({"mode": "bfs", "max_events": depth, "distinct": states, "generated": transitions, "wall": round(r["wall"], 1)})
        if r["violated"] or r["errors"]:
            problems.append({"mode": "bfs", "violated": r["violated"], "errors": r["errors"][:2], "tail": r["out"][-3000:], "hist": vlib.cex_hist(cex)})
        hists = vlib.hists_from_tlc(r["outfile"], True)
        os.remove(r["outfile"])
        # liveness of the model under weak fairness of the streamer's return (small bound; no VIEW)
        cfgl = scratch.path("Stream_live.cfg")
        write_cfg(cfgl, 6 if tier == "quick" else 8, 2, "bfs", liveness=True)
        rl = vlib.tlc(scratch, "Stream", cfgl, workers=8, timeout=900, tag="stream-live")
        stats.append({"mode": "liveness RecvReturns under WF(streamer returns)", "distinct": rl.get("distinct"), "generated": rl.get("generated"),
                      "violated": rl["violated"], "wall": round(rl["wall"], 1)})
        if rl["violated"] or rl["errors"]:
            problems.append({"mode": "liveness", "violated": rl["violated"], "errors": rl["errors"][:2], "tail": rl["out"][-3000:], "hist": None})
        os.remove(rl["outfile"])
        simn, simd = (6, 16) if tier == "quick" else (120, 30)
        cfgs = scratch.path("Stream_sim.cfg")
        write_cfg(cfgs, simd, 12, "sim")
        r2 = vlib.tlc(scratch, "Stream", cfgs, workers=16, timeout=900, simulate="num=%d" % simn, depth=simd + 1, seed=seed, tag="stream-sim")
        mm = re.findall(r"The number of states generated: (\d+)", r2["out"])
        transitions += int(mm[-1]) if mm else 0
        stats.append({"mode": "sim", "behaviours": simn * 16, "depth": simd})
        if r2["violated"] or r2["errors"]:
            problems.append({"mode": "sim", "violated": r2["violated"], "errors": r2["errors"][:2], "tail": r2["out"][-3000:], "hist": None})
        hists += vlib.hists_from_tlc(r2["outfile"], False)
        os.remove(r2["outfile"])
        lim = 3000 if tier == "quick" else 30000
        if len(hists) > lim:
            random.Random(seed).shuffle(hists)
            hists = hists[:lim]
        scripts = [{"id": "st-%d" % i, "steps": h} for i, h in enumerate(hists)]
        for k, p in enumerate(problems):
            if p.get("hist"):
                scripts.append({"id": "cex-%d" % k, "steps": p["hist"]})
        scripts.append({"id": "unary", "steps": [{"op": "unary", "err": False}, {"op": "unary", "err": True}]})
        seedp = os.path.join(vlib.VERIF, "scripts", "stream_seed.ndjson")
        if os.path.exists(seedp):
            scripts += [json.loads(l) for l in open(seedp) if l.strip()]
        inp, outp = scratch.path("st-scripts.ndjson"), scratch.path("st-trace.ndjson")
        with open(inp, "w") as f:
            for s in scripts:
                f.write(json.dumps(s) + "\n")
        rc, out = vlib.run_test_binary(binp, "TestVerifStream", {"VERIF_IN": inp, "VERIF_OUT": outp})
        if rc != 0 or "VERIF-STREAM" not in out:
            raise Infra("stream harness failed:\n" + out[-3000:])
        verdict = vlib.validate_chunks(scratch, outp, "StreamTrace", lambda ln: '"op":"reset"' in ln[:80], tag="sttv")
        kf = vlib.load_known_findings()
        reported, known_hits = [], {}
        for b in verdict["bad"]:
            rest = []
            for cid in b["ids"]:
                f = vlib.known_match(kf, pid, dict(b, ids=[cid]))
                if f:
                    known_hits[f["what"]] = known_hits.get(f["what"], 0) + 1
                else:
                    rest.append(cid)
            if rest:
                reported.append(dict(b, ids=rest))
        if problems and not reported:
            bad_sids = set(b["sid"] for b in verdict["bad"])
            unrep = [p for k, p in enumerate(problems) if ("cex-%d" % k) not in bad_sids]
            if unrep:
                for p in unrep:
                    print("MODEL-PROBLEM mode=%s violated=%s errors=%s" % (p["mode"], p["violated"], p["errors"]))
                    print(p["tail"][-1500:])
                raise Infra("Stream model reports a problem the real code does not reproduce (model error)")
        for w, n in known_hits.items():
            print("KNOWN-FINDING: property=%s %s (matched %d times)" % (pid, w, n))
        by_sid = {s["id"]: s for s in scripts}
        rcode, seen = 0, set()
        for b in reported:
            sig = tuple(sorted(b["ids"]))
            if sig in seen:
                continue
            seen.add(sig)
            evs = [l for l in open(outp) if ('"sid":"%s"' % b["sid"]) in l]
            d = vlib.save_replay(pid, "%s-%d" % (b["sid"], seed), {
                "kind": "stream\n", "script.ndjson": json.dumps(by_sid.get(b["sid"])) + "\n", "trace.ndjson": "".join(evs),
                "violation.json": json.dumps({"property": pid, "clauses": b["ids"], "script": b["sid"], "event": b["i"]}, indent=1)})
            print("VIOLATION property=%s replay=%s" % (pid, d))
            print("  clauses %s violated at event %d of script %s" % (",".join(b["ids"]), b["i"], b["sid"]))
            rcode = 1
            if len(seen) >= 4:
                break
        samples = []
        for s in scripts[:2] + scripts[-1:]:
            evs = [json.loads(l) for l in open(outp) if ('"sid":"%s"' % s["id"]) in l][:12]
            samples.append({"script": s, "recorded": [{k: e[k] for k in ("i", "op", "th", "kind", "res", "rets", "blk", "inv", "dlog", "unary") if k in e} for e in evs]})
        cov = {"states": max(states, 1), "transitions": max(transitions, 1), "traces_validated_against_impl": len(scripts),
               "events_validated": verdict["n"], "samples": samples, "exhaustive": False, "model_runs": stats,
               "clause_antecedent_hits": verdict["cnt"], "vacuous_clauses": [c for c, n in verdict["cnt"].items() if n == 0],
               "known_findings_matched": known_hits,
               "model_problems": [{"mode": p["mode"], "violated": p["violated"]} for p in problems],
               "explanation": "specs/Stream.tla model-checked (safety clauses of StreamGhost on every transition, no lost wake-up invariant, liveness "
                              "RecvReturns under weak fairness); every history replayed on the real gcpClientStream; clauses evaluated by TLC on the "
                              "recorded trace (specs/StreamTrace.tla); unary interceptor transparency recorded as SAME/DIFF events"}
        vlib.write_evidence(pid, tier, seed, "model_checking", cov, ASSUMPTIONS, time.time() - t0, len(reported))
        print("%s %s: scripts=%d events=%d model-states=%d clause-hits=%s" % (pid, tier, len(scripts), verdict["n"], states, verdict["cnt"]))
        return rcode
    finally:
        scratch.cleanup()
