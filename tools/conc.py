#!/usr/bin/env python3
"""Concurrent sections of the pool, scheduled at lock granularity by TLC (specs/LockSched.tla).

Pipeline per scenario (a sequential preamble, a handful of concurrent operations, a sequential epilogue):
  1. solo run on the gate build of the real code: every operation of the section runs alone, one after the other; the
     harness records each operation's lock events (acquire at which gate, release) -> the lock profiles (prof.json);
  2. TLC enumerates on LockSched.tla every schedule (order in which gates are passed) with at most MaxPre preemptions that
     the locking rules allow, including the schedules that end in a lock-order deadlock of the profiles;
  3. every schedule is replayed on the real code (harness op "conc": goroutines stepped gate to gate);
  4. the recorded section is judged by the same clauses as sequential histories (PoolGhost via PoolTrace): every order of
     the section's operations that is compatible with what was observed (an operation that finished before another was
     launched comes first; connections and publications appear in creation order) is written out as a sequential trace;
     the section is explained when one of them violates no clause. A section that no order explains is a violation of
     the clauses that fail in every order (and of those that fail in the best order).
Nothing is decided from the model alone: a deadlock is reported only when the real goroutines are parked on each other."""
import itertools, json, os, shutil, sys, time
from concurrent.futures import ThreadPoolExecutor

sys.path.insert(0, os.path.dirname(os.path.abspath(__file__)))
import vlib, pool
from vlib import Infra


def C(min=1, max=2, wm=1, fb=False, uc=0, ums=0, rr=False):
    return dict(min=min, max=max, wm=wm, fb=fb, uc=uc, ums=ums, rr=rr, nopool=False)


def R(av=1):
    return {"op": "resolve", "av": av, "cfgk": "first"}


def S(c, s):
    return {"op": "state", "c": c, "s": s}


def P(m="PLAIN", keys=(), dl=0, pk=-1):
    return {"op": "pick", "m": m, "keys": list(keys), "pk": pk, "dl": dl}


def D(n, out="OK", rkeys=()):
    return {"op": "done", "n": n, "out": out, "rkeys": list(rkeys)}


def A(d):
    return {"op": "advance", "d": d}


# name -> (cfg, preamble, concurrent operations, epilogue)
SCENARIOS = {
    # a BIND completes while the replacement of its channel takes over
    "bind-swap": (C(1, 1, 100, uc=1, ums=1), [R(), S(1, "READY"), P("BIND"), P(dl=1), A(5), D(2, "CDE")],
                  [D(1, "OK", [1]), S(2, "READY")], [P("BOUND", [1]), P("BOUND", [1]), D(3), D(4)]),
    # an UNBIND completes while the replacement takes over
    "unbind-swap": (C(1, 1, 100, uc=1, ums=1), [R(), S(1, "READY"), P("BIND"), D(1, "OK", [1]), P("UNBIND", [1]), P(dl=1), A(5), D(3, "CDE")],
                    [D(2, "OK"), S(2, "READY")], [P("BOUND", [1]), P("BIND"), D(5, "OK", [1]), P("BOUND", [1])]),
    # two BINDs return the same key from different channels; a BOUND call for the key is picked meanwhile
    "bind-bind": (C(2, 2, 100), [R(), S(1, "READY"), S(2, "READY"), P("BIND"), P("BIND")],
                  [D(1, "OK", [1]), D(2, "OK", [1]), P("BOUND", [1])], [P("BOUND", [1]), P("BOUND", [1])]),
    # BIND and UNBIND of the same key complete together
    "bind-unbind": (C(2, 2, 100), [R(), S(1, "READY"), S(2, "READY"), P("BIND"), D(1, "OK", [1]), P("UNBIND", [1]), P("BIND")],
                    [D(2, "OK"), D(3, "OK", [1]), P("BOUND", [1])], [P("BOUND", [1]), P("BOUND", [1])]),
    # stream counters: picks on the current and on a stale picker with completions
    "streams": (C(2, 2, 100), [R(), S(1, "READY"), S(2, "READY"), P(), P(), P()],
                [P(), P(pk=1), D(1), D(2, "ERR")], [P(), P(), D(3), D(4), D(5), D(6), D(7)]),
    # several picks through the same picker: selection and increment of the stream count are one step
    "streams-same": (C(2, 2, 100), [R(), S(1, "READY"), S(2, "READY")], [P(), P(), P()], [P(), D(1), D(2), D(3), D(4)]),
    # stream counters across the take-over of a refreshed channel
    "streams-swap": (C(1, 1, 100, uc=1, ums=1), [R(), S(1, "READY"), P(), P(), P(dl=1), A(5), D(3, "CDE")],
                     [P(), D(1), S(2, "READY")], [P(), D(2), D(4), D(5)]),
    # growth: two saturated picks on different pickers while the new connection becomes READY (maxSize 2 and 3)
    "growth2": (C(1, 2, 1), [R(), S(1, "READY"), S(1, "TF"), S(1, "READY"), P()],
                [P(pk=1), P(pk=3), S(2, "READY")], [P(), P(), S(3, "READY"), P()]),
    "growth3": (C(1, 3, 1), [R(), S(1, "READY"), S(1, "TF"), S(1, "READY"), P()],
                [P(pk=1), P(pk=3), S(2, "READY")], [P(), P(), S(3, "READY"), P()]),
    # growth decision while a completion frees capacity
    "growth-done": (C(1, 2, 1), [R(), S(1, "READY"), P()], [P(), D(1), P()], [P(), S(2, "READY"), P()]),
    # two client-deadline completions race for the refresh of one channel
    "refresh2": (C(1, 1, 100, uc=1, ums=1), [R(), S(1, "READY"), P(dl=1), P(dl=1), A(5)],
                 [D(1, "CDE"), D(2, "CDE")], [S(2, "READY"), S(3, "READY"), P()]),
    # a client-deadline completion while the replacement of the same channel takes over
    "refresh-swap": (C(1, 1, 100, uc=1, ums=1), [R(), S(1, "READY"), P(dl=1), P(dl=1), A(5), D(1, "CDE")],
                     [D(2, "CDE"), S(2, "READY")], [P(), S(3, "READY"), P()]),
    # fallback: keyed picks while the home channel recovers
    "fallback": (C(1, 2, 1, fb=True), [R(), S(1, "READY"), P("BIND"), D(1, "OK", [1]), P(), P(), S(2, "READY"), S(1, "TF")],
                 [P("BOUND", [1]), S(1, "READY"), P("BOUND", [1], pk=4)], [P("BOUND", [1]), P("BOUND", [1])]),
    # a resolver update while a completion starts a refresh
    "resolve-refresh": (C(1, 1, 100, uc=1, ums=1), [R(1), S(1, "READY"), P(dl=1), A(5)],
                        [D(1, "CDE"), R(2)], [S(2, "READY"), P(), R(3)]),
    # a resolver update while a saturated pick grows the pool
    "resolve-growth": (C(1, 2, 1), [R(1), S(1, "READY"), P()], [P(), R(2), P(pk=1)], [S(2, "READY"), P(), R(3)]),
    # a keyed pick and an UNBIND completion while the key's channel is taken over by its replacement
    "bound-swap": (C(1, 1, 100, uc=1, ums=1), [R(), S(1, "READY"), P("BIND"), D(1, "OK", [1]), P("UNBIND", [1]), P(dl=1), A(5), D(3, "CDE")],
                   [P("BOUND", [1]), S(2, "READY"), D(2, "OK")], [P("BOUND", [1]), P()]),
    # fallback: the stand-in breaks while keyed picks are placed and the key is unbound
    "fallback-unbind": (C(1, 2, 1, fb=True), [R(), S(1, "READY"), P("BIND"), D(1, "OK", [1]), P(), P(), S(2, "READY"), S(1, "TF"), P("UNBIND", [1])],
                        [D(4, "OK"), P("BOUND", [1]), S(1, "READY")], [P("BOUND", [1]), P("BIND"), D(6, "OK", [1]), P("BOUND", [1])]),
    # fallback: the channel chosen as stand-in fails while the keyed pick that chose it is still running (three channels)
    "fallback-fail": (C(1, 3, 1, fb=True), [R(), S(1, "READY"), P("BIND"), D(1, "OK", [1]), P(), P(), S(2, "READY"), P(), P(), S(3, "READY"), S(1, "TF")],
                      [P("BOUND", [1]), S(3, "TF")], [P("BOUND", [1]), P("BOUND", [1]), S(3, "READY"), P("BOUND", [1])]),
    # round-robin BINDs from several goroutines (all channels READY: none waits)
    "rr": (C(2, 2, 100, rr=True), [R(), S(1, "READY"), S(2, "READY"), P("BIND")],
           [P("BIND"), P("BIND"), P("BIND")], [P("BIND"), P("BIND")]),
    # round-robin BIND next to a state report and a plain pick
    "rr-state": (C(2, 2, 100, rr=True), [R(), S(1, "READY"), S(2, "READY")],
                 [P("BIND"), S(2, "READY"), P()], [P("BIND"), P("BIND")]),
}

PROP_SCENARIOS = {
    "C01": ["bind-swap", "unbind-swap", "bind-bind", "bind-unbind", "bound-swap"],
    "C02": ["streams", "streams-same", "streams-swap", "growth-done"],
    "C03": ["growth2", "growth3", "growth-done", "refresh2", "resolve-growth"],
    "C04": ["growth2", "refresh-swap", "fallback"],
    "C05": ["bind-swap", "streams-swap", "resolve-refresh", "rr-state"],
    "C06": ["bind-swap", "refresh-swap", "refresh2", "growth2", "fallback", "resolve-refresh", "rr-state", "unbind-swap"],
    # C07 quantifies over timed histories: only the race whose every sequential reading is covered by the statement
    # ("no refresh already in progress", "exactly one replacement") is judged against it
    "C07": ["refresh2"],
    "C08": ["fallback", "fallback-unbind", "fallback-fail"],
    "C09": ["rr", "rr-state"],
    "C20": ["resolve-refresh", "resolve-growth"],
}

SOLO_REPEAT = 14


def script_of(name, sched, sid):
    cfg, pre, procs, post = SCENARIOS[name]
    return {"id": sid, "cfg": cfg, "steps": list(pre) + [{"op": "conc", "procs": procs, "sched": sched}] + list(post)}


def sections(trace_path):
    """sid -> list of events of that script"""
    by = {}
    for ln in open(trace_path):
        if not ln.strip():
            continue
        e = json.loads(ln)
        by.setdefault(e["sid"], []).append(e)
    return by


def profiles(events):
    for e in events:
        if e["op"] == "conc":
            return [[{"a": x["a"], "l": x["l"], "k": x["k"], "g": x.get("g", "")} for x in lk] for lk in e.get("locks", [])]
    return None


def schedules(scratch, name, prof, maxpre, limit, seed):
    """TLC: every schedule of the profiles with at most maxpre preemptions (BFS); a sample when there are too many."""
    tag = "ls-" + name
    wd = scratch.sub("tlc-" + tag)
    json.dump(prof, open(os.path.join(wd, "prof.json"), "w"))
    cfgp = os.path.join(wd, "LockSched_run.cfg")
    open(cfgp, "w").write("CONSTANTS\n MaxPre = %d\nINIT Init\nNEXT Next\nINVARIANTS Emit Exclusion\nCHECK_DEADLOCK FALSE\n" % maxpre)
    r = vlib.tlc(scratch, "LockSched", cfgp, workers=1, timeout=300, tag=tag, jvm=("-Xmx2g", "-XX:ParallelGCThreads=2"))
    if r["violated"] or r["errors"] or r.get("distinct") is None:
        raise Infra("LockSched failed for scenario %s: %s %s\n%s" % (name, r["violated"], r["errors"][:2], r["out"][-1500:]))
    out = [json.loads(x) for x in vlib.tlc_file_prints(r["outfile"], "SCHED")]
    dead = [x for x in out if x["dead"]]
    live = [x for x in out if not x["dead"]]
    total = len(out)
    if len(live) > limit:
        import random
        rnd = random.Random(seed * 7919 + len(name))
        # keep every schedule with few preemptions, sample the rest
        live.sort(key=lambda x: (x["pre"], x["s"]))
        few = [x for x in live if x["pre"] <= 1]
        rest = [x for x in live if x["pre"] > 1]
        rnd.shuffle(rest)
        live = (few + rest)[:max(limit, len(few))]
    shutil.rmtree(wd, ignore_errors=True)
    return dead + live, {"scenario": name, "schedules": total, "deadlocking": len(dead), "replayed": len(dead) + len(live),
                         "distinct": r.get("distinct"), "generated": r.get("generated"), "max_preemptions": maxpre}


def lock_class(name, kind):
    return {"g": "gb" if kind == "W" else "gbR", "p": "p", "r": "ref"}.get(name[:1], "?")


def held_at_gates(lks):
    """(gate site, classes of the locks held including the one being taken) for every acquisition of one operation"""
    held, out = [], []
    for x in lks:
        if x["a"] == "acq":
            held.append((x["l"], x["k"]))
            out.append((x["g"], tuple(sorted(set(lock_class(l, k) for l, k in held)))))
        else:
            for h in held:
                if h[0] == x["l"]:
                    held.remove(h)
                    break
    return out


def gate_table(scratch):
    """the locking discipline as specs/PoolConc.tla states it: allowed lock sets per acquisition site"""
    r = vlib.tlc(scratch, "PoolConc", "PoolConc_gates.cfg", workers=1, timeout=300, tag="gates", jvm=("-Xmx1g", "-XX:ParallelGCThreads=2"))
    rows = vlib.tlc_prints(r["out"], "GATES")
    if not rows or r["violated"] or r["errors"]:
        raise Infra("PoolConc gate table: %s %s\n%s" % (r["violated"], r["errors"][:2], r["out"][-1500:]))
    return set((x["gate"], tuple(sorted(x["locks"]))) for x in json.loads(rows[-1]))


def orders(conc):
    """orders of the section's operations compatible with the observation"""
    subs, ivs = conc["sub"], conc["ivs"]
    idx = [k for k in range(len(subs)) if subs[k]["res"] != "SKIPPED"]

    def news(k):
        return [c["c"] for c in subs[k]["cc"] if c["k"] == "new" and c["ok"]]

    def pubs(k):
        return [c["pk"] for c in subs[k]["cc"] if c["k"] == "st"]

    res = []
    for perm in itertools.permutations(idx):
        pos = {k: i for i, k in enumerate(perm)}
        ok = True
        for a in idx:
            for b in idx:
                if a == b:
                    continue
                # a finished before b was launched
                if ivs[a][1] < ivs[b][0] and pos[a] > pos[b]:
                    ok = False
                # identifiers handed out by the ClientConn are evidence of order
                if news(a) and news(b) and max(news(a)) < min(news(b)) and pos[a] > pos[b]:
                    ok = False
                if pubs(a) and pubs(b) and max(pubs(a)) < min(pubs(b)) and pos[a] > pos[b]:
                    ok = False
                # a report for a connection comes after its creation
                if subs[b]["op"] == "state" and subs[b]["c"] in news(a) and pos[a] > pos[b]:
                    ok = False
        if ok:
            res.append(perm)
    return res


BLANK_WB = {"ok": False, "streams": [], "aff": [], "nr": 0, "nc": 0, "nt": 0, "pool": 0, "refr": 0, "cfgset": False,
            "ecfg": {"min": 0, "max": 0, "wm": 0, "fb": False, "uc": 0, "ums": 0, "rr": False, "nopool": False}, "meths": []}


def linearizations(events, cap=64):
    """sequential traces (lists of events) that a recorded script with concurrent sections may be read as"""
    outs = [[]]
    npub = 0
    for e in events:
        if e["op"] != "conc":
            for o in outs:
                o.append(e)
            npub += sum(1 for c in e.get("cc", []) if c["k"] == "st")
            continue
        perms = orders(e)[:cap] or [tuple(range(len(e["sub"])))]
        new_outs = []
        for o in outs:
            for perm in perms:
                seq = list(o)
                pubs_now = npub
                for j, k in enumerate(perm):
                    sub = dict(e["sub"][k])
                    last = j == len(perm) - 1
                    if sub["op"] == "pick":
                        sub["lat"] = sub["pk"] == pubs_now
                    sub["probe"] = e["probe"]
                    sub["wb"] = e["wb"] if last else BLANK_WB
                    sub["auto"] = False
                    for f in ("sub", "ivs", "locks", "exec", "drift"):
                        sub.pop(f, None)
                    if e["res"] == "HANG" and sub["res"] not in ("HANG",):
                        pass
                    pubs_now += sum(1 for c in sub["cc"] if c["k"] == "st")
                    seq.append(sub)
                new_outs.append(seq)
        outs = new_outs[:cap]
        npub += sum(1 for s in e["sub"] for c in s["cc"] if c["k"] == "st")
    return outs


def judge(scratch, by_sid, tag):
    """by_sid: sid -> recorded events (with conc sections). Every compatible order of every section is validated by
    PoolTrace; returns (unexplained scripts with the clauses they violate, merged verdict, counters)."""
    lin_path = scratch.path(tag + "-lin.ndjson")
    lin_of = {}
    drift = honoured = 0
    with open(lin_path, "w") as fo:
        for sid, evs in by_sid.items():
            for e in evs:
                if e["op"] == "conc" and not sid.startswith("solo-"):
                    drift += e.get("drift", 0)
                    honoured += len(e.get("exec") or [])
            for j, seq in enumerate(linearizations(evs)):
                lsid = "%s~%d" % (sid, j)
                lin_of.setdefault(sid, []).append(lsid)
                for e in seq:
                    fo.write(json.dumps(dict(e, sid=lsid), separators=(",", ":")) + "\n")
    verdict = pool.validate_trace(scratch, lin_path, tag)
    bad_by = {}
    for b in verdict["bad"]:
        bad_by.setdefault(b["sid"], []).append(b)
    bad = []
    explained = 0
    for sid, lsids in lin_of.items():
        if any(l not in bad_by for l in lsids):
            explained += 1
            continue
        # no order explains the section: clauses violated in every order, and those of the best order
        per = [set(c for b in bad_by[l] for c in b["ids"]) for l in lsids]
        always = set.intersection(*per)
        best = min(lsids, key=lambda l: (len(set(c for b in bad_by[l] for c in b["ids"])), l))
        ids = sorted(always | set(c for b in bad_by[best] for c in b["ids"]))
        first = bad_by[best][0]
        tags = sorted(set(t for b in bad_by[best] for t in b.get("tags", [])))
        bad.append({"sid": sid, "i": first["i"], "ids": ids, "tags": tags, "orders": len(lsids), "best": best,
                    "per_order": [sorted(x) for x in per]})
    hangs = sum(1 for evs in by_sid.values() for e in evs if e["op"] == "conc" and e["res"] == "HANG")
    return bad, verdict, {"explained": explained, "linearizations": sum(len(v) for v in lin_of.values()), "hangs": hangs,
                          "honoured": honoured, "drift": drift}


# clauses that speak about what justifies an outcome *at the moment of the call*: inside a concurrent section the justification may
# be an operation that overlaps the call (a saturated pick that read the pool size, lost the race for the last slot and is told to
# wait while the connection created by the winner is already READY), so no order of atomic operations reproduces it
SEQUENTIAL_ONLY = {"C03_w"}


def for_property(bad, pid):
    """A section that no order explains counts against a property only when every order violates one of that property's clauses;
    the clauses reported are those of the order with the fewest of them."""
    out = []
    for b in bad:
        per = [[c for c in ids if c.split("_")[0] == pid and c not in SEQUENTIAL_ONLY] for ids in b["per_order"]]
        if all(per):
            out.append(dict(b, ids=min(per, key=len)))
    return out


def run(scratch, pid, tier, seed, names=None):
    """Returns dict(bad=[...], cnt={clause: hits}, n=events, stats=[...], scripts={sid: script}, traces={sid: [lines]})."""
    t0 = time.time()
    names = names or PROP_SCENARIOS.get(pid, [])
    if not names:
        return None
    binp = pool.build_pool_harness(scratch, gates=True)
    # 1. solo runs -> lock profiles
    solo = []
    for n in names:
        k = len(SCENARIOS[n][2])
        sched = [p for p in range(1, k + 1) for _ in range(SOLO_REPEAT)]
        solo.append(script_of(n, sched, "solo-" + n))
    _, tr = pool.run_scripts(scratch, binp, solo, "conc-solo")
    by = sections(tr)
    profs, table = {}, {}
    for n in names:
        pr = profiles(by.get("solo-" + n, []))
        if pr is None:
            raise Infra("no concurrent section recorded for scenario " + n)
        profs[n] = pr
        for lk in pr:
            for g, classes in held_at_gates(lk):
                table.setdefault(g, set()).add(classes)
    # 2. schedules from TLC
    maxpre, limit = (2, 40) if tier == "quick" else (4, 4000)
    with ThreadPoolExecutor(max_workers=8) as ex:
        res = list(ex.map(lambda n: schedules(scratch, n, profs[n], maxpre, limit, seed), names))
    scripts, stats = [], []
    for n, (sch, st) in zip(names, res):
        stats.append(st)
        for j, x in enumerate(sch):
            scripts.append(script_of(n, x["s"], "conc-%s-%d%s" % (n, j, "d" if x["dead"] else "")))
    # 3. replay on the real code
    _, tr2 = pool.run_scripts(scratch, binp, scripts, "conc-run")
    by2 = sections(tr2)
    by2.update({k: v for k, v in by.items()})
    # 4. linearizations -> PoolTrace
    bad, verdict, js = judge(scratch, by2, "tvc")
    # locks observed in the scheduled runs too (paths the solo runs did not take)
    for sid, evs in by2.items():
        for e in evs:
            if e["op"] == "conc":
                for lk in e.get("locks", []):
                    for g, classes in held_at_gates(lk):
                        table.setdefault(g, set()).add(classes)
    declared = gate_table(scratch)
    table_drift = sorted([g, list(c)] for g, v in table.items() for c in v if (g, c) not in declared)
    all_scripts = {s["id"]: s for s in solo + scripts}
    traces = {sid: [json.dumps(e) + "\n" for e in evs] for sid, evs in by2.items() if any(b["sid"] == sid for b in bad)}
    return {"bad": bad, "cnt": verdict["cnt"], "n": verdict["n"], "stats": stats, "scripts": all_scripts, "traces": traces,
            "summary": {"scenarios": names, "schedules_replayed": len(scripts), "sections_explained": js["explained"],
                        "sections_unexplained": len(bad), "linearizations_validated": js["linearizations"],
                        "real_deadlocks": js["hangs"], "schedule_steps_honoured": js["honoured"], "schedule_steps_not_honoured": js["drift"],
                        "lock_table_observed": {g: sorted(list(x) for x in v) for g, v in sorted(table.items())},
                        "lock_table_not_in_PoolConc": table_drift,
                        "wall": round(time.time() - t0, 1)}}


if __name__ == "__main__":
    pid = sys.argv[1]
    s = vlib.Scratch("conc")
    try:
        r = run(s, pid, sys.argv[2] if len(sys.argv) > 2 else "quick", 1, sys.argv[3].split(",") if len(sys.argv) > 3 else None)
        print(json.dumps(r["summary"], indent=1))
        print(json.dumps(r["stats"]))
        for b in r["bad"][:10]:
            print("UNEXPLAINED", b)
            print("   script", json.dumps(r["scripts"][b["sid"]]["steps"][-8:])[:600])
        print({k: v for k, v in r["cnt"].items() if v and k.startswith(pid)})
    finally:
        s.cleanup()
