#!/usr/bin/env python3
"""Shared machinery: overlay generation, Go harness build/run, TLC runs, evidence files.

Everything is rebuilt from /repo's current working tree on every call; scratch space is a
mkdtemp directory removed by the caller (see Scratch)."""
import json, os, re, shutil, subprocess, sys, tempfile, time, glob, hashlib

VERIF = os.path.dirname(os.path.dirname(os.path.abspath(__file__)))
REPO = os.environ.get("VERIF_REPO", "/repo")
SPECS = os.path.join(VERIF, "specs")
HARNESS = os.path.join(VERIF, "harness")
EVID = os.path.join(VERIF, "evidence")
REPLAYS = os.path.join(VERIF, "replays")
TLA_JAR = "/opt/veriftools/tla/tla2tools.jar"
TLA_CP = TLA_JAR + ":/opt/veriftools/tla/CommunityModules-deps.jar"

GOENV = dict(os.environ, GOFLAGS="-mod=mod", GOPROXY="off", GOSUMDB="off", GOTOOLCHAIN="local")


class Infra(Exception):
    """Anything that is not a verdict about the code: exit status 2."""


class Scratch:
    def __init__(self, tag):
        base = os.environ.get("VERIF_SCRATCH_BASE") or tempfile.gettempdir()
        self.dir = tempfile.mkdtemp(prefix="verif-%s-" % tag, dir=base)

    def path(self, *p):
        return os.path.join(self.dir, *p)

    def sub(self, name):
        d = self.path(name)
        os.makedirs(d, exist_ok=True)
        return d

    def cleanup(self):
        if os.environ.get("VERIF_KEEP"):
            sys.stderr.write("scratch kept: %s\n" % self.dir)
            return
        shutil.rmtree(self.dir, ignore_errors=True)


# ------------------------------------------------------------------------------------------ overlay

TIME_RE = re.compile(r"\btime\.(Now|Since|Until)\b")
LOCK_RE = re.compile(r"^(\s*)((?:[A-Za-z_][\w\.]*)\.(?:Lock|RLock|Wait)\(\))\s*$")
LOCK2_RE = re.compile(r"^(\s*)([A-Za-z_][\w\.]*)\.(Lock|RLock)\(\)\s*$")
UNLOCK_RE = re.compile(r"^(\s*)(defer\s+)?([A-Za-z_][\w\.]*)\.(Unlock|RUnlock)\(\)\s*$")


def _lockref(expr):
    """identity of the lock behind `expr.Lock()`: the address of a mutex field (`&p.mu`), or the pointer variable itself
    when the mutex is embedded in the struct it points to (`me.Lock()` -> `me`)"""
    return "&" + expr if "." in expr else expr


def rewrite_source(src, virtual_time=True, gates=False, fname=""):
    """Line-preserving rewrite of a Go source file: time.Now -> verifNow, and optionally
    `verifLock(site, &x, kind); x.Lock()` in front of every `x.Lock()` / `x.RLock()` statement (a scheduling gate that also
    tells which lock is about to be taken), `x.Unlock(); verifUnlock(site, &x, kind)` for every (deferred) `x.Unlock()` /
    `x.RUnlock()` (a second kind of gate: right after a critical section) and `verifYield(site)` in front of every `x.Wait()`."""
    out = []
    func = "?"
    n = nu = 0
    for line in src.split("\n"):
        m = re.match(r"^func\s+(?:\([^)]*\)\s*)?(\w+)", line)
        if m:
            func = m.group(1)
            n = nu = 0
        if virtual_time:
            line = TIME_RE.sub(lambda mm: "verif" + mm.group(1), line)
        if gates:
            mm = LOCK2_RE.match(line)
            mu = UNLOCK_RE.match(line)
            mw = LOCK_RE.match(line)
            if mm:
                n += 1
                kind = "W" if mm.group(3) == "Lock" else "R"
                line = '%sverifLock("%s#%d", %s, "%s"); %s.%s()' % (mm.group(1), func, n, _lockref(mm.group(2)), kind, mm.group(2), mm.group(3))
            elif mu:
                kind = "W" if mu.group(4) == "Unlock" else "R"
                nu += 1
                site = "%s#u%d" % (func, nu)
                if mu.group(2):
                    line = '%sdefer func() { %s.%s(); verifUnlock("%s", %s, "%s") }()' % (mu.group(1), mu.group(3), mu.group(4), site, _lockref(mu.group(3)), kind)
                else:
                    line = '%s%s.%s(); verifUnlock("%s", %s, "%s")' % (mu.group(1), mu.group(3), mu.group(4), site, _lockref(mu.group(3)), kind)
            elif mw:
                n += 1
                line = '%sverifYield("%s#%d"); %s' % (mw.group(1), func, n, mw.group(2))
        out.append(line)
    text = "\n".join(out)
    if virtual_time and '"time"' in text:
        text += "\nvar _ time.Duration\n"
    return text


def make_overlay(scratch, pkg_rel, harness_dir, rewrite=(), gates=False, mask_tests=True, extra_files=None,
                 name="ov", virtual_time=True):
    """pkg_rel: package directory relative to REPO (e.g. grpcgcp). harness_dir: directory under
    /verif/harness whose files are injected. rewrite: source files of the package to virtualise."""
    pkg = os.path.join(REPO, pkg_rel)
    repl = {}
    odir = scratch.sub(name + "-src")
    if mask_tests:
        for f in glob.glob(os.path.join(pkg, "*_test.go")):
            repl[f] = ""
    for f in sorted(os.listdir(harness_dir)):
        if f.endswith(".go"):
            repl[os.path.join(pkg, f)] = os.path.join(harness_dir, f)
    for f in rewrite:
        p = os.path.join(pkg, f)
        if not os.path.exists(p):
            raise Infra("source file to rewrite is missing: " + p)
        text = rewrite_source(open(p).read(), virtual_time, gates, f)
        q = os.path.join(odir, f)
        open(q, "w").write(text)
        repl[p] = q
    for dst, srcp in (extra_files or {}).items():
        repl[os.path.join(pkg, dst)] = srcp
    ov = scratch.path(name + ".json")
    json.dump({"Replace": repl}, open(ov, "w"))
    return ov


def go_test_build(scratch, mod_rel, pkg_rel_in_mod, overlay, out_name, race=False, tags="verif"):
    """Compile the (overlaid) test binary of one package. Returns the binary path."""
    moddir = os.path.join(REPO, mod_rel)
    binp = scratch.path(out_name)
    # a private copy of go.mod/go.sum: -mod=mod may rewrite them (the harness imports packages the module
    # only needs indirectly) and a check must never modify /repo
    md = scratch.sub("mod-" + out_name)
    shutil.copy(os.path.join(moddir, "go.mod"), os.path.join(md, "go.mod"))
    if os.path.exists(os.path.join(moddir, "go.sum")):
        shutil.copy(os.path.join(moddir, "go.sum"), os.path.join(md, "go.sum"))
    cmd = ["go", "test", "-c", "-vet=off", "-tags", tags, "-overlay", overlay, "-modfile", os.path.join(md, "go.mod"), "-o", binp]
    if race:
        cmd.append("-race")
    cmd.append(pkg_rel_in_mod)
    t0 = time.time()
    p = subprocess.run(cmd, cwd=moddir, env=GOENV, stdout=subprocess.PIPE, stderr=subprocess.STDOUT, text=True)
    if p.returncode != 0 or not os.path.exists(binp):
        raise Infra("harness build failed (%s):\n%s" % (" ".join(cmd), p.stdout[-4000:]))
    return binp


def run_test_binary(binp, test, env=None, cwd=None, timeout=1800):
    e = dict(GOENV)
    e.update(env or {})
    cmd = [binp, "-test.run", "^%s$" % test, "-test.count=1", "-test.timeout", "%ds" % timeout]
    try:
        p = subprocess.run(cmd, cwd=cwd, env=e, stdout=subprocess.PIPE, stderr=subprocess.STDOUT, text=True,
                           timeout=timeout + 30)
    except subprocess.TimeoutExpired:
        raise Infra("harness run timed out: " + test)
    return p.returncode, p.stdout


# ------------------------------------------------------------------------------------------ TLC

def tlc(scratch, module, cfg, workers="auto", extra=(), timeout=900, simulate=None, depth=None, seed=None,
        tag=None, jvm=(), env=None, coverage=False, dfid=None):
    """Run TLC on specs/<module>.tla with specs/<cfg> inside a private copy of the specs directory.
    Returns dict(rc, out, states, distinct, generated, violated, error)."""
    tag = tag or (module + "-" + os.path.splitext(os.path.basename(cfg))[0])
    wd = scratch.sub("tlc-" + tag)
    for f in os.listdir(SPECS):
        if f.endswith(".tla") or f.endswith(".cfg"):
            shutil.copy(os.path.join(SPECS, f), wd)
    if os.path.isabs(cfg) or os.path.exists(cfg):
        if os.path.abspath(os.path.dirname(cfg)) != os.path.abspath(wd):
            shutil.copy(cfg, wd)
        cfg = os.path.basename(cfg)
    meta = os.path.join(wd, "meta")
    if not jvm:
        jvm = ("-Xmx12g",)
    cmd = ["java", "-XX:+UseParallelGC", "-Xss" + os.environ.get("VERIF_XSS", "512m")] + list(jvm) + ["-cp", TLA_CP, "tlc2.TLC",
           "-noGenerateSpecTE", "-metadir", meta, "-config", cfg, "-workers", str(workers)]
    if simulate:
        cmd += ["-simulate", simulate]
    if depth:
        cmd += ["-depth", str(depth)]
    if seed is not None:
        cmd += ["-seed", str(seed)]
    if coverage:
        cmd += ["-coverage", "1"]
    cmd += list(extra) + [module + ".tla"]
    e = dict(os.environ)
    e.update(env or {})
    t0 = time.time()
    outp = os.path.join(wd, "tlc.out")
    try:
        with open(outp, "w") as fo:
            p = subprocess.run(["timeout", str(timeout)] + cmd, cwd=wd, env=e, stdout=fo, stderr=subprocess.STDOUT)
    finally:
        shutil.rmtree(meta, ignore_errors=True)
    # keep the printed payload lines out of the in-memory copy
    keep = []
    with open(outp, errors="replace") as fi:
        for line in fi:
            if line.startswith('<<"SCRIPT"') or line.startswith('<<"VEC"'):
                continue
            keep.append(line)
    out = "".join(keep)
    if len(out) > 400000:
        out = out[:100000] + "\n...\n" + out[-300000:]
    r = {"rc": p.returncode, "out": out, "outfile": outp, "wall": time.time() - t0, "wd": wd, "timeout": p.returncode == 124}
    m = re.findall(r"(\d+) states generated, (\d+) distinct states found, (\d+) states left on queue", out)
    if m:
        r["generated"], r["distinct"], r["queue"] = map(int, m[-1])
    m = re.search(r"The depth of the complete state graph search is (\d+)", out)
    if m:
        r["depth"] = int(m.group(1))
    r["violated"] = re.findall(r"(?:Invariant|Action property|Temporal property|property) (\w+) (?:is|was) violated", out)
    if "Temporal properties were violated" in out:
        r["violated"].append("TEMPORAL")
    r["deadlock"] = "Deadlock reached" in out
    errs = [l for l in out.split("\n") if l.startswith("Error:")]
    r["errors"] = errs
    return r


def tlc_prints(out, tag):
    """Collect values printed by PrintT(<<tag, json-string>>) from a string."""
    return list(_prints(out.split("\n"), tag))


def tlc_file_prints(path, tag):
    with open(path, errors="replace") as f:
        for x in _prints(f, tag):
            yield x


def _prints(lines, tag):
    pre = '<<"%s", "' % tag
    for l in lines:
        l = l.strip()
        if l.startswith(pre) and l.endswith('">>'):
            s = l[len(pre):-3]
            yield s.replace('\\"', '"').replace("\\\\", "\\")


# ------------------------------------------------------------------------------------------ evidence

def write_evidence(pid, tier, seed, level, coverage, assumptions, wall, violations=0, extra=None):
    if os.environ.get("VERIF_NO_EVIDENCE"):
        return          # evaluation of seeded changes against a scratch worktree: never touch the evidence files
    os.makedirs(EVID, exist_ok=True)
    ev = {"property_id": pid, "tier": tier, "seed": int(seed), "level": level, "coverage": coverage,
          "assumptions": assumptions, "wall_s": round(wall, 2), "violations": int(violations)}
    if extra:
        ev.update(extra)
    tmp = os.path.join(EVID, pid + ".json.tmp")
    json.dump(ev, open(tmp, "w"), indent=1, sort_keys=True)
    os.replace(tmp, os.path.join(EVID, pid + ".json"))


def load_known_findings():
    p = os.path.join(VERIF, "known_findings.json")
    if not os.path.exists(p):
        return []
    return json.load(open(p))


def save_replay(pid, name, files):
    """files: dict name->text. Returns directory path."""
    d = os.path.join(REPLAYS, "%s-%s" % (pid, name))
    os.makedirs(d, exist_ok=True)
    for k, v in files.items():
        open(os.path.join(d, k), "w").write(v)
    return d


# ------------------------------------------------------------------------------------------ generic pipeline helpers

def hists_from_tlc(outfile, maximal, siblings=2):
    """Histories printed by TLC as <<"SCRIPT", json>>. maximal: drop proper prefixes (BFS output);
    otherwise keep at most `siblings` histories per parent (simulation prints every candidate last step)."""
    seen, hists = set(), []
    for s in tlc_file_prints(outfile, "SCRIPT"):
        if s not in seen:
            seen.add(s)
            hists.append(json.loads(s))
    if maximal:
        haschild = set(json.dumps(h[:-1], sort_keys=True) for h in hists if h)
        return [h for h in hists if h and json.dumps(h, sort_keys=True) not in haschild]
    bypar = {}
    for h in hists:
        bypar.setdefault(json.dumps(h[:-1], sort_keys=True), []).append(h)
    return [h for v in bypar.values() for h in v[:siblings]]


def cex_hist(path):
    """History variable of the last state of a TLC counterexample dumped with -dumpTrace json."""
    if not os.path.exists(path):
        return None
    try:
        d = json.load(open(path))
        d = d.get("counterexample", d)
        last = d["state"][-1]
        last = last[1] if isinstance(last, list) else last
        return last.get("hist")
    except Exception as e:
        sys.stderr.write("counterexample parse failed (%s): %s\n" % (path, e))
        return None


def validate_chunks(scratch, trace, module, is_reset, par=16, min_chunk=2500, tag="tv"):
    """Trace validation: cut the trace at script boundaries and let parallel TLC processes evaluate the
    clauses of <module>.tla on every event; merge the verdicts."""
    from concurrent.futures import ThreadPoolExecutor
    lines = open(trace).readlines()
    chunks, cur = [], []
    target = max(min_chunk, len(lines) // par + 1)
    for ln in lines:
        if is_reset(ln) and len(cur) >= target:
            chunks.append(cur)
            cur = []
        cur.append(ln)
    if cur:
        chunks.append(cur)

    def one(ic):
        i, c = ic
        t = "%s-%d" % (tag, i)
        wd = scratch.sub("tlc-" + t)
        with open(os.path.join(wd, "trace.ndjson"), "w") as f:
            f.writelines(c)
        r = tlc(scratch, module, module + ".cfg", workers=1, timeout=3600, tag=t, jvm=("-Xmx2g", "-XX:ParallelGCThreads=2"))
        v = tlc_prints(r["out"], "VERDICT")
        shutil.rmtree(wd, ignore_errors=True)
        if not v:
            raise Infra("trace validation (%s) gave no verdict:\n%s" % (module, r["out"][-3000:]))
        return json.loads(v[0])
    t0 = time.time()
    with ThreadPoolExecutor(max_workers=par) as ex:
        res = list(ex.map(one, enumerate(chunks)))
    d = {"n": 0, "bad": [], "cnt": {}}
    for r in res:
        d["n"] += r["n"]
        d["bad"] += r["bad"]
        for k, c in r["cnt"].items():
            d["cnt"][k] = d["cnt"].get(k, 0) + c
    d["wall"] = time.time() - t0
    return d


def known_match(kf, pid, rec):
    """A violation record matches an open known finding when property, clause and tag agree."""
    for f in kf:
        if f.get("status") != "open" or f.get("property") != pid:
            continue
        sig = f.get("signature", {})
        if sig.get("clause") and sig["clause"] not in rec["ids"]:
            continue
        if sig.get("tag") and sig["tag"] not in rec.get("tags", []):
            continue
        return f
    return None
