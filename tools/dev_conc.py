#!/usr/bin/env python3
"""dev: run hand-written conc scripts on the gate build and dump the recorded events"""
import sys, os, json
sys.path.insert(0, os.path.dirname(os.path.abspath(__file__)))
import vlib, pool
s = vlib.Scratch('devc')
try:
    b = pool.build_pool_harness(s, gates=True)
    scripts = [json.loads(l) for l in open(sys.argv[1]) if l.strip()]
    inp, tr = pool.run_scripts(s, b, scripts, "conc")
    for l in open(tr):
        e = json.loads(l)
        if e["op"] == "conc":
            print("CONC res=%s exec=%s drift=%s ivs=%s" % (e["res"], e.get("exec"), e.get("drift"), e.get("ivs")))
            for k, sub in enumerate(e.get("sub", [])):
                print("   sub", k + 1, {x: sub[x] for x in ("op", "res", "rc", "rn", "cc", "msg")})
                print("       locks", [(x["a"], x.get("g"), x["l"]) for x in e["locks"][k]])
            print("   probe", e["probe"], "wb", e["wb"])
        else:
            print(e["i"], e["op"], {x: e[x] for x in ("res", "rc", "rn", "c", "s", "m", "keys", "n", "out") if e.get(x)}, "cc", [(c["k"], c["c"]) for c in e["cc"]])
    if len(sys.argv) > 2:
        import shutil; shutil.copy(tr, sys.argv[2])
finally:
    s.cleanup()
