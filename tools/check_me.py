#!/usr/bin/env python3
"""C13 / C14: MultiEndpoint.  TLC on specs/ME.tla (mechanism => clauses of MEGhost, script generation) ->
scripts executed on the real multiendpoint package with a virtual clock/timer wheel -> recorded trace ->
TLC on specs/METrace.tla evaluates every clause on every event."""
import json, os, sys, time, shutil, random, re
from concurrent.futures import ThreadPoolExecutor

sys.path.insert(0, os.path.dirname(os.path.abspath(__file__)))
import vlib
from vlib import Infra

FAM = {"C13": "Fam13", "C14": "Fam14"}
ASSUMPTIONS = [
    "time and timers are virtual: the package's own timeNow/timeAfterFunc hooks are set by the injected harness; a timer is 'due' from the tick it expires and its callback runs when the script fires it (models callbacks waiting for the lock); Stop() on a due timer returns false like time.AfterFunc; the clock is read either fine-grained (every reading later than the one before) or coarse (all readings between two clock advances equal: a quarter of the histories and a third of the random jobs run a second time / run that way)",
    "endpoint lists contain distinct names (duplicates are outside the statement); a fifth of the histories run a second time with one model id given to the real object as the empty string \"\" (translated at the API boundary, the trace keeps the model's id)",
    "calls are sequential in this pipeline; data races are C10's subject",
]

# (R, D, NInit, ids, depth quick, depth thorough)
CONFIGS = [
    (0, 0, 2, 3, 6, 9), (2, 0, 2, 3, 6, 8), (0, 2, 2, 3, 6, 8), (2, 2, 2, 3, 5, 7), (1, 2, 3, 3, 5, 7), (2, 1, 1, 3, 5, 7),
    (1, 0, 3, 3, 5, 8), (0, 1, 3, 3, 5, 8), (1, 1, 2, 3, 5, 7), (3, 2, 2, 2, 6, 9),
]
QUICK = {"C13": [0, 1, 3], "C14": [3, 2, 4, 7]}


def write_cfg(path, R, D, ninit, nids, depth, mode, prop, maxtimers=4):
    ids = ["a", "b", "c", "d"][:nids]
    lines = ["CONSTANTS", ' Ids = {%s}' % ", ".join('"%s"' % i for i in ids), " R = %d" % R, " D = %d" % D, " NInit = %d" % ninit,
             " MaxTimers = %d" % maxtimers, " MaxDepth = %d" % depth, " Ticks = {1, 2}", " UseUnknown = FALSE",
             "INIT Init", "NEXT Next", "CHECK_DEADLOCK FALSE"]
    if mode == "bfs":
        lines += ["VIEW View", "INVARIANTS TypeOK GhostAgrees EmitBfs"]
    else:
        lines += ["CONSTRAINT EmitSim", "INVARIANTS TypeOK GhostAgrees"]
    lines += ["PROPERTIES " + prop]
    open(path, "w").write("\n".join(lines) + "\n")


def scripts_from(outfile, cfg, prefix, maximal):
    seen, hists = set(), []
    for s in vlib.tlc_file_prints(outfile, "SCRIPT"):
        if s not in seen:
            seen.add(s)
            hists.append(json.loads(s))
    if maximal:
        haschild = set(json.dumps(h[:-1], sort_keys=True) for h in hists if h)
        hists = [h for h in hists if h and json.dumps(h, sort_keys=True) not in haschild]
    else:
        bypar = {}
        for h in hists:
            bypar.setdefault(json.dumps(h[:-1], sort_keys=True), []).append(h)
        hists = [h for v in bypar.values() for h in v[:2]]
    return [{"id": "%s-%d" % (prefix, i), "cfg": cfg, "steps": h} for i, h in enumerate(hists)]


def cex_script(path, cfg, prefix):
    if not os.path.exists(path):
        return []
    try:
        d = json.load(open(path))
        d = d.get("counterexample", d)
        last = d["state"][-1]
        last = last[1] if isinstance(last, list) else last
        return [{"id": prefix, "cfg": cfg, "steps": last["hist"]}]
    except Exception as e:
        sys.stderr.write("cex parse failed: %s\n" % e)
        return []


def validate(scratch, trace, par=16):
    lines = open(trace).readlines()
    chunks, cur = [], []
    target = max(3000, len(lines) // par + 1)
    for ln in lines:
        if '"op":"new"' in ln[:60] and len(cur) >= target:
            chunks.append(cur)
            cur = []
        cur.append(ln)
    if cur:
        chunks.append(cur)

    def one(ic):
        i, c = ic
        wd = scratch.sub("tlc-metv-%d" % i)
        open(os.path.join(wd, "trace.ndjson"), "w").writelines(c)
        r = vlib.tlc(scratch, "METrace", "METrace.cfg", workers=1, timeout=3600, tag="metv-%d" % i, jvm=("-Xmx2g", "-XX:ParallelGCThreads=2"))
        v = vlib.tlc_prints(r["out"], "VERDICT")
        if not v:
            raise Infra("ME trace validation gave no verdict:\n" + r["out"][-3000:])
        return json.loads(v[0])
    with ThreadPoolExecutor(max_workers=par) as ex:
        res = list(ex.map(one, enumerate(chunks)))
    d = {"n": 0, "bad": [], "cnt": {}}
    for r in res:
        d["n"] += r["n"]
        d["bad"] += r["bad"]
        for k, c in r["cnt"].items():
            d["cnt"][k] = d["cnt"].get(k, 0) + c
    return d


def build(scratch):
    ov = vlib.make_overlay(scratch, "grpcgcp/multiendpoint", os.path.join(vlib.HARNESS, "multiendpoint"), name="ovme")
    return vlib.go_test_build(scratch, "grpcgcp", "./multiendpoint", ov, "me.test")


def run(pid, tier, seed):
    t0 = time.time()
    scratch = vlib.Scratch("me-" + pid)
    try:
        binp = build(scratch)
        idxs = QUICK[pid] if tier == "quick" else list(range(len(CONFIGS)))
        scripts, stats, problems = [], [], []
        states = transitions = 0
        for ci in idxs:
            R, D, ninit, nids, qd, td = CONFIGS[ci]
            depth = qd if tier == "quick" else td
            cfg = {"eps": ["a", "b", "c", "d"][:ninit], "r": R, "d": D}
            name = "r%dd%dn%d" % (R, D, ninit)
            cfgp = scratch.path("ME_%s_bfs.cfg" % name)
            write_cfg(cfgp, R, D, ninit, nids, depth, "bfs", FAM[pid])
            cex = scratch.path("cex-%s.json" % name)
            r = vlib.tlc(scratch, "ME", cfgp, workers=16, timeout=900 if tier == "quick" else 1800, tag=name + "-bfs",
                         extra=["-dumpTrace", "json", cex])
            st = {"config": name, "max_events": depth, "distinct": r.get("distinct"), "generated": r.get("generated"), "wall": round(r["wall"], 1),
                  "timeout": r["timeout"]}
            if r["violated"] or r["errors"]:
                problems.append({"config": name, "violated": r["violated"], "errors": r["errors"][:2], "tail": r["out"][-3000:],
                                 "cex": cex_script(cex, cfg, "cex-" + name)})
            sc = scripts_from(r["outfile"], cfg, name + "-b", True)
            lim = 4000 if tier == "quick" else 40000
            if len(sc) > lim:
                random.Random(seed).shuffle(sc)
                sc = sc[:lim]
            scripts += sc
            os.remove(r["outfile"])
            states += r.get("distinct") or 0
            transitions += r.get("generated") or 0
            # simulation for depth
            simn, simd = (20, 30) if tier == "quick" else (200, 60)
            cfgp = scratch.path("ME_%s_sim.cfg" % name)
            write_cfg(cfgp, R, D, ninit, nids, simd, "sim", FAM[pid], maxtimers=5)
            cex2 = scratch.path("cex-%s-sim.json" % name)
            r = vlib.tlc(scratch, "ME", cfgp, workers=16, timeout=900, simulate="num=%d" % simn, depth=simd + 1, seed=seed + ci,
                         tag=name + "-sim", extra=["-dumpTrace", "json", cex2])
            mm = re.findall(r"The number of states generated: (\d+)", r["out"])
            st["sim"] = {"behaviours": simn * 16, "depth": simd, "generated": int(mm[-1]) if mm else None}
            transitions += st["sim"]["generated"] or 0
            if r["violated"] or r["errors"]:
                problems.append({"config": name + "-sim", "violated": r["violated"], "errors": r["errors"][:2], "tail": r["out"][-3000:],
                                 "cex": cex_script(cex2, cfg, "cex-sim-" + name)})
            scripts += scripts_from(r["outfile"], cfg, name + "-s", False)
            os.remove(r["outfile"])
            stats.append(st)
        # a coarse time source: every fourth history is run a second time with a clock that returns the same instant for all
        # readings between two clock advances (stale timers must not be told apart by comparing clock readings only)
        scripts += [dict(s, id=s["id"] + "-cc", cfg=dict(s["cfg"], coarse=True)) for k, s in enumerate(scripts) if k % 4 == 1 and s["cfg"].get("r", 0) + s["cfg"].get("d", 0) > 0]
        # the empty string as an endpoint name: every fifth history is run again with the model's id "a" (always in the initial
        # list) / "c" handed to the real object as "" (vmAlias in the harness translates both ways)
        scripts += [dict(s, id=s["id"] + "-en", cfg=dict(s["cfg"], emptyname="ac"[(k // 5) % 2])) for k, s in enumerate(scripts) if k % 5 == 2 and not s["id"].endswith("-cc")]
        for p in problems:
            scripts += p["cex"]
        seedp = os.path.join(vlib.VERIF, "scripts", "me_seed.ndjson")
        if os.path.exists(seedp):
            scripts += [json.loads(l) for l in open(seedp) if l.strip()]
        inp, outp = scratch.path("me-scripts.ndjson"), scratch.path("me-trace.ndjson")
        with open(inp, "w") as f:
            for s in scripts:
                f.write(json.dumps(s) + "\n")
        rc, out = vlib.run_test_binary(binp, "TestVerifME", {"VERIF_IN": inp, "VERIF_OUT": outp})
        if rc != 0 or "VERIF-ME" not in out:
            raise Infra("ME harness failed:\n" + out[-3000:])
        # adaptive random driver: long histories (re-adds, flaps, late and reordered timers), judged by the same clauses
        jobs = []
        nj, nsteps = (150, 40) if tier == "quick" else (2500, 80)
        for ci in idxs:
            R, D, ninit, nids, qd, td = CONFIGS[ci]
            for j in range(nj):
                jobs.append({"id": "rnd-r%dd%dn%d-%d" % (R, D, ninit, j), "cfg": {"eps": ["a", "b", "c", "d"][:ninit], "r": R, "d": D, "coarse": j % 3 == 2, "emptyname": ["", "", "", "b", "a"][j % 5]},
                             "seed": seed * 7919 + ci * 104729 + j, "steps": nsteps, "names": 3 if j % 4 else 4})
        jin, jout = scratch.path("me-jobs.ndjson"), scratch.path("me-rtrace.ndjson")
        with open(jin, "w") as f:
            for j in jobs:
                f.write(json.dumps(j) + "\n")
        rc, out = vlib.run_test_binary(binp, "TestVerifMERandom", {"VERIF_IN": jin, "VERIF_OUT": jout})
        if rc != 0 or "VERIF-MERAND" not in out:
            raise Infra("ME random driver failed:\n" + out[-3000:])
        with open(outp, "a") as fo:
            for ln in open(jout):
                fo.write(ln)
        for j in jobs:
            scripts.append({"id": j["id"], "random_job": j})
        verdict = validate(scratch, outp)
        # concurrent sections (specs/LockSched.tla schedules on the gate build, judged through their linearizations: tools/conc_me.py)
        import conc_me
        conc_sum = None
        cr = conc_me.run(scratch, pid, tier, seed, validate)
        if cr:
            conc_sum = dict(cr["summary"], model_runs=cr["stats"])
            for b in cr["bad"]:
                per = [[c for c in ids if c.startswith(pid) or (pid == "C13" and c == "C05_me")] for ids in b["per_order"]]
                if all(per):
                    verdict["bad"].append(dict(b, ids=min(per, key=len)))
            for c_, n_ in cr["cnt"].items():
                verdict["cnt"][c_] = verdict["cnt"].get(c_, 0) + n_
            verdict["n"] += cr["n"]
            for sid_, sc_ in cr["scripts"].items():
                if sid_ in cr["traces"]:
                    scripts.append(sc_)
            with open(outp, "a") as fo:
                for lns_ in cr["traces"].values():
                    fo.writelines(lns_)
            for st_ in cr["stats"]:
                states += st_.get("distinct") or 0
                transitions += st_.get("generated") or 0
        mine = []
        for b in verdict["bad"]:
            ids = [c for c in b["ids"] if c.startswith(pid) or (pid == "C13" and c == "C05_me")]
            if ids:
                mine.append(dict(b, ids=ids))
        if problems and not mine:
            bad_sids = set(b["sid"] for b in verdict["bad"])
            unrep = [p for p in problems if not any(c["id"] in bad_sids for c in p["cex"])]
            if unrep:
                for p in unrep:
                    print("MODEL-PROBLEM config=%s violated=%s errors=%s" % (p["config"], p["violated"], p["errors"]))
                    print(p["tail"][-1500:])
                raise Infra("ME model reports a problem the real code does not reproduce (model error)")
        by_sid = {s["id"]: s for s in scripts}
        rcode = 0
        seen = set()
        for b in mine:
            sig = tuple(sorted(b["ids"]))
            if sig in seen:
                continue
            seen.add(sig)
            evs = [l for l in open(outp) if ('"sid":"%s"' % b["sid"]) in l]
            d = vlib.save_replay(pid, "%s-%d" % (b["sid"], seed), {
                "kind": "me\n", "script.ndjson": json.dumps(by_sid.get(b["sid"])) + "\n", "trace.ndjson": "".join(evs),
                "violation.json": json.dumps({"property": pid, "clauses": b["ids"], "script": b["sid"], "event": b["i"]}, indent=1)})
            print("VIOLATION property=%s replay=%s" % (pid, d))
            print("  clauses %s violated at event %d of script %s" % (",".join(b["ids"]), b["i"], b["sid"]))
            rcode = 1
            if len(seen) >= 4:
                break
        mycl = sorted(c for c in verdict["cnt"] if c.startswith(pid))
        samples = []
        for s in scripts[:2] + scripts[-1:]:
            evs = [json.loads(l) for l in open(outp) if ('"sid":"%s"' % s["id"]) in l][:14]
            samples.append({"script": s, "recorded": [{k: e[k] for k in ("i", "op", "res", "cur", "due", "live", "now")} for e in evs]})
        cov = {"states": max(states, 1), "transitions": max(transitions, 1), "traces_validated_against_impl": len(scripts),
               "events_validated": verdict["n"], "samples": samples, "exhaustive": False, "model_runs": stats,
               "clause_antecedent_hits": {c: verdict["cnt"][c] for c in mycl},
               "vacuous_clauses": [c for c in mycl if verdict["cnt"][c] == 0],
               "model_problems": [{"config": p["config"], "violated": p["violated"]} for p in problems],
               "concurrent_sections": conc_sum,
               "explanation": "specs/ME.tla (mechanism) checked by TLC against the clauses of specs/MEGhost.tla for every history up to max_events "
                              "inputs per (recovery, delay, initial list) configuration; every history replayed on the real package; "
                              "clauses evaluated by TLC on the recorded trace (specs/METrace.tla)"}
        vlib.write_evidence(pid, tier, seed, "model_checking", cov, ASSUMPTIONS, time.time() - t0, len(mine))
        print("%s %s: configs=%d scripts=%d events=%d model-states=%d clause-hits=%s" % (
            pid, tier, len(idxs), len(scripts), verdict["n"], states, {c: verdict["cnt"][c] for c in mycl}))
        return rcode
    finally:
        scratch.cleanup()
