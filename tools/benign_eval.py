#!/usr/bin/env python3
"""False-alarm test: run the checks against a change that is meant to keep every property true.

usage: benign_eval.py <worktree> <name> <b1|b2|...> --props C01,C02,...

In the scratch worktree (never /repo): apply the patch, build, run the unedited unit tests, then run the
quick tier of the given properties with VERIF_REPO=<worktree>. rc 1 from any check is a candidate false
alarm (or the change does break the property: decide by reading it); rc 2 is harness fragility.
Writes /verif/benign/<name>-<b>/{patch.diff, meta.json}."""
import json, os, shutil, subprocess, sys, time

VERIF = os.path.dirname(os.path.dirname(os.path.abspath(__file__)))
ENV = dict(os.environ, GOFLAGS="-mod=mod", GOPROXY="off", GOSUMDB="off", GOTOOLCHAIN="local")


def sh(cmd, cwd, env=None, timeout=3600):
    p = subprocess.run(cmd, cwd=cwd, env=env or ENV, shell=True, stdout=subprocess.PIPE, stderr=subprocess.STDOUT, text=True, timeout=timeout)
    return p.returncode, p.stdout


def main():
    wt, name, b = sys.argv[1], sys.argv[2], sys.argv[3]
    props = sys.argv[sys.argv.index("--props") + 1].split(",")
    tier = sys.argv[sys.argv.index("--tier") + 1] if "--tier" in sys.argv else "quick"
    out = os.path.join(wt, "_out")
    diff = os.path.join(out, b + ".diff")
    meta = {"id": "%s-%s" % (name, b), "kind": "benign", "source": "independent sub-agent asked for a change that keeps every property true", "ran": []}
    notes = os.path.join(out, "notes.md")
    if os.path.exists(notes):
        meta["agent_notes_excerpt"] = open(notes).read()[:8000]
    sh("git checkout -- . && git clean -fdq -e _out", wt)
    meta["base"] = sh("git rev-parse --short HEAD", wt)[1].strip()
    rc, o = sh("git apply --check %s && git apply %s" % (diff, diff), wt)
    if rc != 0:
        meta["applies"] = False
        meta["why"] = o[-400:]
        return finish(meta, diff)
    meta["applies"] = True
    mods = ["grpcgcp"] if name not in ("BN6", "BM6") else ["spanner_prober", "e2e-checksum"]
    ok = True
    for m in mods:
        rc, o = sh("go build -o /dev/null ./... 2>&1 || go build ./...", os.path.join(wt, m))
        meta["ran"].append({"cmd": "go build (%s)" % m, "rc": rc, "tail": o[-300:]})
        ok = ok and rc == 0
    if name not in ("BN6", "BM6"):
        rc, o = sh("go test -vet=off -count=1 . ./multiendpoint/", os.path.join(wt, "grpcgcp"))
        if rc != 0:
            rc, o = sh("go test -vet=off -count=1 . ./multiendpoint/", os.path.join(wt, "grpcgcp"))
        meta["ran"].append({"cmd": "unit tests", "rc": rc, "tail": o[-300:]})
        ok = ok and rc == 0
    meta["builds_and_tests"] = ok
    det = {}
    for p in props:
        env = dict(ENV, VERIF_REPO=wt, VERIF_NO_EVIDENCE="1")
        t0 = time.time()
        rc, o = sh("./check %s %s" % (p, tier), VERIF, env, timeout=7200)
        lines = [l for l in o.split("\n") if l.startswith("VIOLATION") or l.strip().startswith("clauses") or l.startswith("MODEL-DRIFT") or l.startswith("INFRA")]
        det[p] = {"rc": rc, "lines": lines[:8], "wall": round(time.time() - t0, 1), "tail": o[-600:] if rc != 0 else ""}
    meta["checks"] = det
    meta["alarms"] = [p for p, d in det.items() if d["rc"] == 1]
    meta["infra"] = [p for p, d in det.items() if d["rc"] not in (0, 1)]
    sh("git checkout -- . && git clean -fdq -e _out", wt)
    return finish(meta, diff)


def finish(meta, diff):
    d = os.path.join(VERIF, "benign", meta["id"])
    os.makedirs(d, exist_ok=True)
    if os.path.exists(diff):
        shutil.copy(diff, os.path.join(d, "patch.diff"))
    meta["at"] = time.strftime("%Y-%m-%dT%H:%M:%S")
    json.dump(meta, open(os.path.join(d, "meta.json"), "w"), indent=1)
    print(meta["id"], "ok=%s" % meta.get("builds_and_tests"), "alarms=%s" % meta.get("alarms"), "infra=%s" % meta.get("infra"),
          {p: d["lines"][:2] for p, d in meta.get("checks", {}).items() if d["rc"] != 0})
    return 0


if __name__ == "__main__":
    sys.exit(main())
