#!/usr/bin/env python3
"""C19: checksum codec. The harness marshals seeded messages with the repository's codec; TLC recomputes the
expected frame byte by byte (specs/Checksum.tla: table-driven CRC32C over 16-bit halves, varint tag, LE32)."""
import json, os, sys, time
sys.path.insert(0, os.path.dirname(os.path.abspath(__file__)))
import vlib, check_func
from vlib import Infra


def run(tier, seed):
    t0 = time.time()
    scratch = vlib.Scratch("c19")
    try:
        ov = vlib.make_overlay(scratch, "e2e-checksum", os.path.join(vlib.HARNESS, "e2e-checksum"), name="ovck")
        binp = vlib.go_test_build(scratch, "e2e-checksum", ".", ov, "checksum.test")
        n = 160 if tier == "quick" else 1600
        outp = scratch.path("ck-trace.ndjson")
        rc, out = vlib.run_test_binary(binp, "TestVerifChecksum", {"VERIF_OUT": outp, "VERIF_SEED": str(seed), "VERIF_N": str(n)})
        if rc != 0 or "VERIF-CHECKSUM" not in out:
            raise Infra("checksum harness failed:\n" + out[-3000:])
        verdict = vlib.validate_chunks(scratch, outp, "ChecksumTrace", lambda ln: True, tag="cktv", min_chunk=12)
        sizes = [len(json.loads(l)["std"]) for l in open(outp)]
        return check_func.report("C19", tier, seed, verdict, n, {"distinct": 1},
                                 {"message_sizes": {"min": min(sizes), "max": max(sizes), "total_bytes": sum(sizes)},
                                  "kinds": sorted(set(json.loads(l)["kind"] for l in open(outp))),
                                  "explanation": "trace validation against a byte-level TLA+ reference (no state exploration): for every marshalled message TLC "
                                                 "recomputes CRC32C of the standard encoding and the 6-byte field-2047 prefix, scans both encodings with a wire-format "
                                                 "parser, and checks the recorded decode-equality and error-passthrough flags"},
                                 ["messages are seeded random struct/list/value trees, wrappers, datastore entities, messages with unknown fields, hand-written messages of the older API generation, empty, 100-400 byte and 4-16 KiB payloads (lengths around 4096, 8192, 16384); field numbers stay below 2^25 (TLC integers are 32-bit)",
                                  "message equality after decoding is judged by proto.Equal plus byte equality of the remaining unknown fields in the harness (TLC has no protobuf semantics)"],
                                 t0, outp, "checksum", level="other")
    finally:
        scratch.cleanup()
