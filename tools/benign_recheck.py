#!/usr/bin/env python3
"""Write benign/RECHECK.md: re-runs of the false-alarm test after the checks were extended (batches 9 and 10).
usage: benign_recheck.py <dir with benign/*/meta.json of round A> <dir of round B>"""
import glob, json, os, sys

VERIF = os.path.dirname(os.path.dirname(os.path.abspath(__file__)))
SINCE = "2026-10-03T00:00"   # the re-runs (older records in the same directories belong to the original test)


def rows(d):
    out = []
    for p in sorted(glob.glob(os.path.join(d, "benign", "*", "meta.json"))):
        m = json.load(open(p))
        if m.get("at", "") < SINCE:
            continue
        ch = m.get("checks", {})
        if not m.get("applies", True):
            out.append((m["id"], m.get("base", "?"), "does not apply on this base", "-", "-", 0))
            continue
        out.append((m["id"], m.get("base", "?"), " ".join(sorted(ch)), " ".join(m.get("alarms", [])) or "-", " ".join(m.get("infra", [])) or "-",
                    sum(c.get("wall", 0) for c in ch.values())))
    return out


def main():
    a, b = sys.argv[1], sys.argv[2]
    out = ["# False-alarm test, re-runs", "",
           "The 48 harmless changes of `benign/` were written before batches 9 and 10 of the seeded changes. Every input class, clause and",
           "scheduling rule added for those batches was afterwards run against the harmless changes that touch the same file.", "",
           "Round A (checks as of the batch-9 additions: `sever`, streams, nopool, interleaved method entries, nested unary call, second",
           "updater, old-API messages / large payloads, qps classes, writers-first after a model-dead schedule):", "",
           "| change | base | checks run | alarms | infra | wall (s) |", "|---|---|---|---|---|---|"]
    ra = rows(a)
    for r in ra:
        out.append("| %s | %s | %s | %s | %s | %d |" % r)
    out += ["", "Round B (checks as of the batch-10 additions: `C03_w`, `C01_u`, `C09_h`, registered builder, coarse clock, empty endpoint name, "
            "duplicate reply keys):", "", "| change | base | checks run | alarms | infra | wall (s) |", "|---|---|---|---|---|---|"]
    rb = rows(b)
    for r in rb:
        out.append("| %s | %s | %s | %s | %s | %d |" % r)
    ap = lambda rs: sum(1 for r in rs if not r[2].startswith("does"))
    n = lambda rs: sum(len(r[2].split()) for r in rs if not r[2].startswith("does"))
    al = lambda rs: sum(len(r[3].split()) for r in rs if r[3] != "-")
    out += ["", "Round A: %d changes, %d check runs, %d alarms. Round B: %d changes, %d check runs, %d alarms." % (ap(ra), n(ra), al(ra), ap(rb), n(rb), al(rb)),
            "Changes marked 'does not apply' were written against the base before fix 2ee6195 and touch the lines it changed."]
    open(os.path.join(VERIF, "benign", "RECHECK.md"), "w").write("\n".join(out) + "\n")
    print(out[-1])


if __name__ == "__main__":
    main()
