//go:build verif

package main

// C19 harness: marshals seeded protobuf messages (struct/list/value trees, wrappers, datastore
// entities, messages carrying unknown fields, empty and "large" ones) with the repository's myCodec
// and with the standard codec, decodes the result with the codec and with a plain proto.Unmarshal, and
// logs the bytes. specs/ChecksumTrace.tla recomputes the expected frame (CRC32C, tag, little-endian
// value) byte by byte.

import (
	"bufio"
	"encoding/json"
	"errors"
	"fmt"
	"log"
	"math/rand"
	"os"
	"runtime"
	"strconv"
	"sync"
	"testing"
	"time"

	golangproto "github.com/golang/protobuf/proto"
	"google.golang.org/genproto/googleapis/datastore/v1"
	"google.golang.org/grpc/encoding"
	protoCodec "google.golang.org/grpc/encoding/proto"
	"google.golang.org/protobuf/proto"
	"google.golang.org/protobuf/types/known/structpb"
	"google.golang.org/protobuf/types/known/wrapperspb"
)

type vcEvent struct {
	Id    int    `json:"id"`
	Kind  string `json:"kind"`
	Std   []int  `json:"std"`   // standard encoding
	Out   []int  `json:"out"`   // codec output
	DecOk bool   `json:"decok"` // codec.Unmarshal(out) equals the original (ignoring unknown fields added by the codec)
	StdOk bool   `json:"stdok"` // proto.Unmarshal(out) (a conforming parser) equals the original likewise
	ErrOk bool   `json:"errok"` // an error of the underlying codec is passed through unchanged
	Panic bool   `json:"panic"`
}

// vcYieldWriter is a log sink that lets other goroutines run while a line is being written
type vcYieldWriter struct{}

func (vcYieldWriter) Write(p []byte) (int, error) {
	runtime.Gosched()
	time.Sleep(20 * time.Microsecond)
	return len(p), nil
}

func vcInts(b []byte) []int {
	o := make([]int, len(b))
	for i, x := range b {
		o[i] = int(x)
	}
	return o
}

func vcValue(r *rand.Rand, depth int) *structpb.Value {
	switch k := r.Intn(6); {
	case k == 0:
		return structpb.NewNullValue()
	case k == 1:
		return structpb.NewNumberValue(float64(r.Intn(1000)) / 8)
	case k == 2:
		return structpb.NewStringValue(vcStr(r, r.Intn(12)))
	case k == 3:
		return structpb.NewBoolValue(r.Intn(2) == 0)
	case k == 4 && depth > 0:
		l := &structpb.ListValue{}
		for i := r.Intn(4); i > 0; i-- {
			l.Values = append(l.Values, vcValue(r, depth-1))
		}
		return structpb.NewListValue(l)
	case depth > 0:
		return structpb.NewStructValue(vcStruct(r, depth-1))
	}
	return structpb.NewStringValue("x")
}

func vcStr(r *rand.Rand, n int) string {
	b := make([]byte, n)
	for i := range b {
		b[i] = byte(32 + r.Intn(95))
	}
	return string(b)
}

func vcStruct(r *rand.Rand, depth int) *structpb.Struct {
	s := &structpb.Struct{Fields: map[string]*structpb.Value{}}
	for i := r.Intn(4); i > 0; i-- {
		s.Fields["f"+strconv.Itoa(r.Intn(20))] = vcValue(r, depth)
	}
	return s
}

// vcLegacy is a hand-written message of the older API generation (Reset/String/ProtoMessage and struct tags only), as
// produced by old generators: the stock gRPC codec accepts it, so the checksum codec has to frame it like any other
type vcLegacy struct {
	Name string  `protobuf:"bytes,1,opt,name=name,proto3" json:"name,omitempty"`
	N    int64   `protobuf:"varint,2,opt,name=n,proto3" json:"n,omitempty"`
	Tags []int32 `protobuf:"varint,3,rep,packed,name=tags,proto3" json:"tags,omitempty"`
}

func (m *vcLegacy) Reset()         { *m = vcLegacy{} }
func (m *vcLegacy) String() string { return fmt.Sprintf("legacy(%q,%d,%v)", m.Name, m.N, m.Tags) }
func (*vcLegacy) ProtoMessage()    {}

// vcBigSizes: payload lengths around the powers of two where buffers and "log at most N bytes" caps usually sit
var vcBigSizes = []int{4087, 4090, 4091, 4093, 4094, 4096, 4100, 8189, 8192, 5000, 16381}

func vcMessage(r *rand.Rand, i int) (proto.Message, string) {
	if i%32 == 19 {
		return wrapperspb.Bytes([]byte(vcStr(r, vcBigSizes[(i/32+int(r.Int63()%3))%len(vcBigSizes)]))), "big"
	}
	if i%16 == 11 {
		l := &vcLegacy{Name: vcStr(r, r.Intn(20)), N: int64(r.Intn(1 << 20))}
		for k := r.Intn(4); k > 0; k-- {
			l.Tags = append(l.Tags, int32(r.Intn(300)))
		}
		return golangproto.MessageV2(l), "legacy"
	}
	switch i % 8 {
	case 0:
		return &structpb.Struct{}, "empty"
	case 1:
		return vcStruct(r, 2), "struct"
	case 2:
		return wrapperspb.String(vcStr(r, r.Intn(40))), "wrapper"
	case 3:
		return wrapperspb.Bytes([]byte(vcStr(r, 100+r.Intn(300)))), "large"
	case 4:
		e := &datastore.Entity{Key: &datastore.Key{Path: []*datastore.Key_PathElement{{Kind: "Person", IdType: &datastore.Key_PathElement_Name{Name: vcStr(r, 6)}}}},
			Properties: map[string]*datastore.Value{"n": {ValueType: &datastore.Value_StringValue{StringValue: vcStr(r, 8)}},
				"i": {ValueType: &datastore.Value_IntegerValue{IntegerValue: int64(r.Intn(1 << 20))}}}}
		return e, "entity"
	case 5:
		m := vcStruct(r, 1)
		// unknown fields already present in the message: field 7 varint, field 9 length-delimited
		m.ProtoReflect().SetUnknown([]byte{0x38, byte(r.Intn(127)), 0x4a, 0x02, 'h', 'i'})
		return m, "unknown"
	case 6:
		switch r.Intn(3) {
		case 0:
			return wrapperspb.Bool(true), "tiny"
		case 1:
			return wrapperspb.Int32(int32(1 + r.Intn(100))), "tiny"
		}
		return wrapperspb.Int64(int64(r.Intn(1 << 30))), "int"
	}
	l := &structpb.ListValue{}
	for k := 0; k < 3+r.Intn(5); k++ {
		l.Values = append(l.Values, vcValue(r, 1))
	}
	return l, "repeated"
}

// failing inner codec: returns an error together with nil, empty or partial bytes
type vcFailCodec struct{ mode int }

var vcErr = errors.New("verif: inner codec failed")

func (c vcFailCodec) Marshal(v interface{}) ([]byte, error) {
	switch c.mode {
	case 1:
		return []byte{}, vcErr
	case 2:
		return []byte{0x0a, 0x01, 0x78}, vcErr
	}
	return nil, vcErr
}
func (vcFailCodec) Unmarshal(data []byte, v interface{}) error { return vcErr }
func (vcFailCodec) Name() string                               { return "fail" }

func vcStripChecksum(m proto.Message) {
	// the codec adds unknown field 2047 (6 bytes: fd 7f + 4) in front: remove exactly that prefix if present
	u := m.ProtoReflect().GetUnknown()
	if len(u) >= 6 && u[0] == 0xfd && u[1] == 0x7f {
		m.ProtoReflect().SetUnknown(append([]byte{}, u[6:]...))
	}
}

func TestVerifChecksum(t *testing.T) {
	out := os.Getenv("VERIF_OUT")
	if out == "" {
		t.Skip("VERIF_OUT not set")
	}
	seed, _ := strconv.ParseInt(os.Getenv("VERIF_SEED"), 10, 64)
	n, _ := strconv.Atoi(os.Getenv("VERIF_N"))
	if n == 0 {
		n = 100
	}
	fo, err := os.Create(out)
	if err != nil {
		t.Fatal(err)
	}
	defer fo.Close()
	bw := bufio.NewWriterSize(fo, 1<<20)
	defer bw.Flush()
	enc := json.NewEncoder(bw)
	r := rand.New(rand.NewSource(seed))
	inner := encoding.GetCodec(protoCodec.Name)
	codec := &myCodec{protoCodec: inner}
	type kept struct {
		ev  *vcEvent
		out []byte
	}
	var retained []kept
	for i := 0; i < n; i++ {
		msg, kind := vcMessage(r, i)
		ev := vcEvent{Id: i, Kind: kind, Std: []int{}, Out: []int{}}
		var obKeep []byte
		func() {
			defer func() {
				if p := recover(); p != nil {
					ev.Panic = true
				}
			}()
			std, err := proto.MarshalOptions{Deterministic: true}.Marshal(msg)
			if err != nil {
				t.Fatal(err)
			}
			// the codec must wrap exactly what the underlying codec produces for this message
			std2, _ := inner.Marshal(golangproto.MessageV1(msg))
			ob, err := codec.Marshal(golangproto.MessageV1(msg))
			if err != nil {
				return
			}
			_ = std
			// map fields are serialised in random order: when the payload differs from a second standard
			// encoding only by that order (same length, decodes to an equal message) it is the standard encoding
			if len(ob) >= 6 && string(ob[6:]) != string(std2) && len(ob)-6 == len(std2) {
				d := msg.ProtoReflect().New().Interface()
				if proto.Unmarshal(ob[6:], d) == nil && proto.Equal(d, msg) {
					std2 = append([]byte{}, ob[6:]...)
				}
			}
			ev.Std, ev.Out = vcInts(std2), vcInts(ob)
			obKeep = ob // not copied: the output must stay valid after later Marshal calls
			d1 := msg.ProtoReflect().New().Interface()
			if e := codec.Unmarshal(ob, golangproto.MessageV1(d1)); e == nil {
				vcStripChecksum(d1)
				ev.DecOk = proto.Equal(d1, msg) && string(d1.ProtoReflect().GetUnknown()) == string(msg.ProtoReflect().GetUnknown())
			}
			d2 := msg.ProtoReflect().New().Interface()
			if e := proto.Unmarshal(ob, d2); e == nil {
				vcStripChecksum(d2)
				ev.StdOk = proto.Equal(d2, msg) && string(d2.ProtoReflect().GetUnknown()) == string(msg.ProtoReflect().GetUnknown())
			}
			ev.ErrOk = true
			for mode := 0; mode < 3; mode++ {
				fc := &myCodec{protoCodec: vcFailCodec{mode: mode}}
				if _, e := fc.Marshal(golangproto.MessageV1(msg)); e != vcErr {
					ev.ErrOk = false
				}
			}
		}()
		evc := ev
		retained = append(retained, kept{ev: &evc, out: obKeep})
	}
	// concurrent round: the codec value is shared by every call of a ClientConn, so several goroutines marshal different
	// messages with the same codec at once (log output goes through a writer that yields, like a slow log sink); every
	// output is judged against its own message exactly like the sequential ones
	prevOut := log.Writer()
	log.SetOutput(vcYieldWriter{})
	var cmu sync.Mutex
	var wg sync.WaitGroup
	workers, per := 6, n/6+1
	for w := 0; w < workers; w++ {
		wg.Add(1)
		go func(w int) {
			defer wg.Done()
			rw := rand.New(rand.NewSource(seed*977 + int64(w)))
			for j := 0; j < per; j++ {
				msg, kind := vcMessage(rw, w*per+j)
				ev := vcEvent{Kind: "conc-" + kind, Std: []int{}, Out: []int{}, ErrOk: true}
				var ob []byte
				func() {
					defer func() {
						if p := recover(); p != nil {
							ev.Panic = true
						}
					}()
					std2, _ := inner.Marshal(golangproto.MessageV1(msg))
					var err error
					ob, err = codec.Marshal(golangproto.MessageV1(msg))
					if err != nil {
						ob = nil
						return
					}
					if len(ob) >= 6 && string(ob[6:]) != string(std2) && len(ob)-6 == len(std2) {
						d := msg.ProtoReflect().New().Interface()
						if proto.Unmarshal(ob[6:], d) == nil && proto.Equal(d, msg) {
							std2 = append([]byte{}, ob[6:]...)
						}
					}
					ev.Std = vcInts(std2)
					d1 := msg.ProtoReflect().New().Interface()
					if e := codec.Unmarshal(ob, golangproto.MessageV1(d1)); e == nil {
						vcStripChecksum(d1)
						ev.DecOk = proto.Equal(d1, msg) && string(d1.ProtoReflect().GetUnknown()) == string(msg.ProtoReflect().GetUnknown())
					}
					d2 := msg.ProtoReflect().New().Interface()
					if e := proto.Unmarshal(ob, d2); e == nil {
						vcStripChecksum(d2)
						ev.StdOk = proto.Equal(d2, msg) && string(d2.ProtoReflect().GetUnknown()) == string(msg.ProtoReflect().GetUnknown())
					}
				}()
				evc := ev
				cmu.Lock()
				evc.Id = len(retained)
				retained = append(retained, kept{ev: &evc, out: ob})
				cmu.Unlock()
			}
		}(w)
	}
	wg.Wait()
	log.SetOutput(prevOut)
	// outputs are written out only now: one that aliases a reused buffer has been overwritten meanwhile
	for _, k := range retained {
		if k.out != nil {
			k.ev.Out = vcInts(k.out)
		}
		if e := enc.Encode(k.ev); e != nil {
			t.Fatal(e)
		}
	}
	fmt.Printf("VERIF-CHECKSUM messages=%d\n", n)
}
