//go:build verif

package main

// C18 harness (package main): sets the flag variables to each vector enumerated by TLC and records
// whether validateFlags accepts the set.

import (
	"bufio"
	"encoding/json"
	"fmt"
	"math"
	"os"
	"strings"
	"testing"
)

func vfStrs(x interface{}) string {
	o := []string{}
	if l, ok := x.([]interface{}); ok {
		for _, e := range l {
			s, _ := e.(string)
			o = append(o, s)
		}
	}
	return strings.Join(o, "")
}

func vfQps(class string) float64 {
	switch class {
	case "zero":
		return 0
	case "neg":
		return -1
	case "tiny":
		return 1e-10
	case "nan":
		return math.NaN()
	case "edge":
		// 1s/qps is exactly 2^63 ns: the first interval that does not fit a time.Duration
		return 1e9 / 9223372036854775808.0
	case "denorm":
		return 5e-324
	case "pinf":
		return math.Inf(1)
	case "ninf":
		return math.Inf(-1)
	case "nano":
		return 2e-9
	case "small":
		return 0.001
	case "half":
		return 0.5
	case "one":
		return 1
	case "max":
		return 1000
	}
	return 1000.5
}

func TestVerifFlags(t *testing.T) {
	in, out := os.Getenv("VERIF_IN"), os.Getenv("VERIF_OUT")
	if in == "" || out == "" {
		t.Skip("VERIF_IN/VERIF_OUT not set")
	}
	fi, err := os.Open(in)
	if err != nil {
		t.Fatal(err)
	}
	defer fi.Close()
	fo, err := os.Create(out)
	if err != nil {
		t.Fatal(err)
	}
	defer fo.Close()
	bw := bufio.NewWriterSize(fo, 1<<20)
	defer bw.Flush()
	enc := json.NewEncoder(bw)
	sc := bufio.NewScanner(fi)
	sc.Buffer(make([]byte, 1<<20), 1<<24)
	id := 0
	for sc.Scan() {
		if len(sc.Bytes()) == 0 {
			continue
		}
		var v map[string]interface{}
		if e := json.Unmarshal(sc.Bytes(), &v); e != nil {
			t.Fatalf("bad vector: %v", e)
		}
		res := map[string]interface{}{"id": id, "accepted": false, "fpanic": false}
		if v["kind"] == "flags" {
			func() {
				defer func() {
					if p := recover(); p != nil {
						res["fpanic"] = true
					}
				}()
				*project = vfStrs(v["project"])
				*opsProject = ""
				*instance_name = vfStrs(v["instance"])
				*database_name = vfStrs(v["database"])
				*instanceConfig = vfStrs(v["icfg"])
				q, _ := v["qps"].(string)
				*qps = vfQps(q)
				*numRows = 10
				*payloadSize = 10
				pt, _ := v["ptype"].(string)
				*probeType = pt
				res["accepted"] = len(validateFlags()) == 0
			}()
		}
		if e := enc.Encode(res); e != nil {
			t.Fatal(e)
		}
		id++
	}
	fmt.Printf("VERIF-FLAGS vectors=%d\n", id)
}
