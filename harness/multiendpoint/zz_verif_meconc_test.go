//go:build verif

package multiendpoint

// Concurrent sections of MultiEndpoint scripts (step op "conc"): SetEndpoints / SetEndpointAvailability / timer
// callbacks / Current run as goroutines and are stepped from lock acquisition to lock acquisition by a schedule that TLC
// generated from specs/LockSched.tla (same scheme as harness/grpcgcp/zz_verif_conc_test.go; the gates are the
// verifLock calls the overlay puts in front of me.Lock()/me.RLock() when the binary is built with the gate rewrite).
// The recorded section is judged through its linearizations by specs/METrace.tla (tools/conc_me.py).

import (
	"regexp"
	"runtime"
	"strings"
	"sync"
	"time"
)

var verifLockFn func(site string, l interface{}, kind string)
var verifUnlockFn func(site string, l interface{}, kind string)

func verifLock(site string, l interface{}, kind string) {
	if f := verifLockFn; f != nil {
		f(site, l, kind)
	}
}

func verifUnlock(site string, l interface{}, kind string) {
	if f := verifUnlockFn; f != nil {
		f(site, l, kind)
	}
}

type vmLk struct {
	A string `json:"a"`
	G string `json:"g"`
	L string `json:"l"`
	K string `json:"k"`
}

var vmGidRe = regexp.MustCompile(`^goroutine (\d+) \[`)

func vmCurGID() string {
	var buf [64]byte
	n := runtime.Stack(buf[:], false)
	m := vmGidRe.FindSubmatch(buf[:n])
	if m == nil {
		return "?"
	}
	return string(m[1])
}

func vmWaitState(gid string) string {
	buf := make([]byte, 1<<19)
	n := runtime.Stack(buf, true)
	s := string(buf[:n])
	hdr := "goroutine " + gid + " ["
	i := strings.Index(s, hdr)
	if i < 0 {
		return ""
	}
	rest := s[i+len(hdr):]
	j := strings.Index(rest, "]")
	if j < 0 {
		return ""
	}
	st := rest[:j]
	if k := strings.Index(st, ","); k >= 0 {
		st = st[:k]
	}
	return st
}

func vmIsLockWait(st string) bool {
	switch st {
	case "sync.Mutex.Lock", "sync.RWMutex.RLock", "sync.RWMutex.Lock", "semacquire":
		return true
	}
	return false
}

type vmProc struct {
	idx   int
	ev    vmEvent
	fn    func() string
	gid   string
	reg   chan struct{}
	done  chan struct{}
	at    chan string
	rel   chan struct{}
	state string // "" | gate | lockwait | done
	lks   []vmLk
	start int
	end   int
	res   string
	msg   string
}

type vmConc struct {
	mu    sync.Mutex
	byGid map[string]*vmProc
	procs []*vmProc
	clock int
	exec  []int
	drift int
}

func (c *vmConc) cur() *vmProc {
	gid := vmCurGID()
	c.mu.Lock()
	defer c.mu.Unlock()
	return c.byGid[gid]
}

func (c *vmConc) onLock(site string, l interface{}, kind string) {
	p := c.cur()
	if p == nil {
		return
	}
	p.lks = append(p.lks, vmLk{A: "acq", G: site, L: "me", K: kind})
	p.at <- site
	<-p.rel
}

func (c *vmConc) onUnlock(site string, l interface{}, kind string) {
	if p := c.cur(); p != nil {
		p.lks = append(p.lks, vmLk{A: "rel", G: site, L: "me", K: kind})
		p.at <- site
		<-p.rel
	}
}

func (c *vmConc) settle(p *vmProc) {
	deadline := time.Now().Add(3 * time.Second)
	parkedSince := time.Time{}
	for {
		select {
		case <-p.at:
			p.state = "gate"
			return
		case <-p.done:
			p.state = "done"
			return
		case <-time.After(300 * time.Microsecond):
		}
		st := vmWaitState(p.gid)
		if vmIsLockWait(st) {
			if parkedSince.IsZero() {
				parkedSince = time.Now()
			}
			if time.Since(parkedSince) > 3*time.Millisecond {
				p.state = "lockwait"
				return
			}
		} else {
			parkedSince = time.Time{}
		}
		if time.Now().After(deadline) {
			p.state = "lockwait"
			return
		}
	}
}

func (c *vmConc) refresh() {
	for _, p := range c.procs {
		if p.state == "lockwait" {
			select {
			case <-p.at:
				p.state = "gate"
			case <-p.done:
				p.state = "done"
			default:
			}
		}
		if p.state == "done" && p.end == 0 {
			c.clock++
			p.end = c.clock
		}
	}
}

func (c *vmConc) step(p *vmProc) {
	c.clock++
	c.exec = append(c.exec, p.idx)
	if p.state == "" {
		p.start = c.clock
		ready := make(chan struct{})
		go func() {
			p.gid = vmCurGID()
			close(ready)
			defer close(p.done)
			defer func() {
				if x := recover(); x != nil {
					p.res, p.msg = "PANIC", "panic in concurrent operation"
				}
			}()
			<-p.reg
			p.res = p.fn()
		}()
		<-ready
		c.mu.Lock()
		c.byGid[p.gid] = p
		c.mu.Unlock()
		close(p.reg)
	} else {
		p.rel <- struct{}{}
	}
	c.settle(p)
	c.refresh()
}

// vmExecConc runs one concurrent section; the returned event carries the sub-events, and Cur/Due/Live at quiescence.
func vmExecConc(me MultiEndpoint, sid string, i int, st vmStep) vmEvent {
	ev := vmEvent{Sid: sid, I: i, Op: "conc", Eps: []string{}, Res: "OK"}
	c := &vmConc{byGid: map[string]*vmProc{}}
	due := vmDueList()
	for k, ps := range st.Procs {
		sub := vmEvent{Sid: sid, I: i, Op: ps.Op, Eps: ps.Eps, E: ps.E, B: ps.B, N: ps.N, K: ps.K, Cur: "?"}
		if sub.Eps == nil {
			sub.Eps = []string{}
		}
		p := &vmProc{idx: k + 1, reg: make(chan struct{}), done: make(chan struct{}), at: make(chan string, 1), rel: make(chan struct{})}
		ps := ps
		switch ps.Op {
		case "set":
			p.fn = func() string {
				if err := me.SetEndpoints(ps.Eps); err != nil {
					return "ERR"
				}
				return "OK"
			}
		case "avail":
			p.fn = func() string { me.SetEndpointAvailability(ps.E, ps.B); return "OK" }
		case "cur":
			p.fn = func() string { _ = me.Current(); return "OK" }
		case "fire":
			if ps.K >= 1 && ps.K <= len(due) && !due[ps.K-1].fired {
				t := due[ps.K-1]
				t.fired = true
				p.fn = func() string { t.f(); return "OK" }
			}
		}
		if p.fn == nil {
			sub.Res = "SKIPPED"
			p.state = "done"
		}
		p.ev = sub
		c.procs = append(c.procs, p)
	}
	verifLockFn, verifUnlockFn = c.onLock, c.onUnlock
	defer func() { verifLockFn, verifUnlockFn = nil, nil }()
	for _, k := range st.Sched {
		if k < 1 || k > len(c.procs) {
			continue
		}
		p := c.procs[k-1]
		if p.fn == nil {
			continue
		}
		if p.state == "" || p.state == "gate" {
			c.step(p)
		} else {
			c.drift++
		}
	}
	hung := false
	idle := time.Time{}
	for {
		c.refresh()
		progress, left := false, 0
		for _, p := range c.procs {
			if p.fn == nil || p.state == "done" {
				continue
			}
			left++
			if p.state == "" || p.state == "gate" {
				c.step(p)
				progress = true
			}
		}
		if left == 0 {
			break
		}
		if progress {
			idle = time.Time{}
			continue
		}
		allParked := true
		for _, p := range c.procs {
			if p.fn == nil || p.state == "done" {
				continue
			}
			if !vmIsLockWait(vmWaitState(p.gid)) {
				allParked = false
			}
		}
		if idle.IsZero() || !allParked {
			idle = time.Now()
		}
		if time.Since(idle) > 600*time.Millisecond {
			hung = true
			break
		}
		time.Sleep(time.Millisecond)
	}
	c.refresh()
	for _, p := range c.procs {
		sub := p.ev
		if p.fn != nil {
			if p.state == "done" {
				sub.Res, sub.Msg = p.res, p.msg
			} else {
				sub.Res, sub.Msg = "HANG", "parked on the mutex at the end of the section"
			}
		}
		if p.end == 0 {
			c.clock++
			p.end = c.clock
		}
		lk := p.lks
		if lk == nil {
			lk = []vmLk{}
		}
		ev.Sub = append(ev.Sub, sub)
		ev.Ivs = append(ev.Ivs, [2]int{p.start, p.end})
		ev.Locks = append(ev.Locks, lk)
	}
	ev.Exec, ev.Drift = c.exec, c.drift
	if hung {
		ev.Res = "HANG"
	}
	return ev
}
