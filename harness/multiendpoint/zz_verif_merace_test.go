//go:build verif

package multiendpoint

// C10 race driver for MultiEndpoint (binary built with -race): Current(), availability reports,
// SetEndpoints and real timers (microsecond recovery timeout / switching delay) all concurrently.

import (
	"fmt"
	"math/rand"
	"os"
	"strconv"
	"sync"
	"sync/atomic"
	"testing"
	"time"
)

func TestVerifRaceME(t *testing.T) {
	if os.Getenv("VERIF_RACE") == "" {
		t.Skip("VERIF_RACE not set")
	}
	seed, _ := strconv.ParseInt(os.Getenv("VERIF_SEED"), 10, 64)
	rounds, _ := strconv.Atoi(os.Getenv("VERIF_N"))
	if rounds == 0 {
		rounds = 5
	}
	timeNow = func() time.Time { return time.Now() }
	timeAfterFunc = func(d time.Duration, f func()) timerAlike { return time.AfterFunc(d, f) }
	names := []string{"a", "b", "c", "d"}
	for k := 0; k < rounds; k++ {
		rt := time.Duration(k%3) * 50 * time.Microsecond
		sd := time.Duration((k/3)%3) * 40 * time.Microsecond
		me, err := NewMultiEndpoint(&MultiEndpointOptions{Endpoints: []string{"a", "b"}, RecoveryTimeout: rt, SwitchingDelay: sd})
		if err != nil {
			t.Fatal(err)
		}
		var wg sync.WaitGroup
		var stop int32
		for w := 0; w < 2; w++ {
			wg.Add(1)
			go func() {
				defer wg.Done()
				for atomic.LoadInt32(&stop) == 0 {
					_ = me.Current()
				}
			}()
		}
		for w := 0; w < 2; w++ {
			wg.Add(1)
			go func(w int) {
				defer wg.Done()
				r := rand.New(rand.NewSource(seed + int64(k*10+w)))
				for i := 0; i < 400; i++ {
					me.SetEndpointAvailability(names[r.Intn(len(names))], r.Intn(2) == 0)
					if r.Intn(8) == 0 {
						time.Sleep(time.Duration(r.Intn(60)) * time.Microsecond)
					}
				}
			}(w)
		}
		wg.Add(1)
		go func() {
			defer wg.Done()
			r := rand.New(rand.NewSource(seed + int64(k*10+7)))
			for i := 0; i < 150; i++ {
				perm := r.Perm(len(names))
				l := []string{}
				for _, p := range perm[:1+r.Intn(len(names))] {
					l = append(l, names[p])
				}
				me.SetEndpoints(l)
				time.Sleep(time.Duration(r.Intn(40)) * time.Microsecond)
			}
		}()
		time.Sleep(15 * time.Millisecond)
		atomic.StoreInt32(&stop, 1)
		wg.Wait()
		time.Sleep(time.Millisecond) // let pending timers fire
	}
	fmt.Printf("VERIF-RACE-ME rounds=%d\n", rounds)
}
