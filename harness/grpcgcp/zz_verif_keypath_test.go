//go:build verif

package grpcgcp

// C11 harness: materialises the value shapes enumerated by TLC from specs/KeyPath.tla as Go values and
// runs getAffinityKeysFromMessage on every (value, locator) vector. Each vector line is echoed with
// the observed result; specs/KeyPathTrace.tla recomputes the reference result and compares.

import (
	"bufio"
	"encoding/json"
	"fmt"
	"os"
	"strings"
	"testing"
)

type KEmb struct{ Emb string }

type KNode struct {
	Name string
	Num  int
	List []string
	Sub  *KNode
	Subs []*KNode
	Vals []KNode
	Any  interface{}
	Pp   **KNode
	Nest [][]string
	M    map[string]string
	*KEmb
}

// KAlt: another struct type that may sit behind the same interface field; same field names as KNode for the
// four fields it has, at different positions
type KAlt struct {
	List []string
	Num  int
	Name string
	Sub  *KNode
}

func vkIsNil(m map[string]interface{}) bool { z, _ := m["z"].(bool); return z }

func vkStrs(x interface{}) []string {
	out := []string{}
	if l, ok := x.([]interface{}); ok {
		for _, e := range l {
			s, _ := e.(string)
			out = append(out, s)
		}
	}
	return out
}

func vkNode(x interface{}) *KNode {
	m, ok := x.(map[string]interface{})
	if !ok || vkIsNil(m) {
		return nil
	}
	n := &KNode{M: map[string]string{"k": "v"}}
	n.Name, _ = m["name"].(string)
	n.List = vkStrs(m["list"])
	n.Sub = vkNode(m["sub"])
	n.Subs = []*KNode{}
	if l, ok := m["subs"].([]interface{}); ok {
		for _, e := range l {
			n.Subs = append(n.Subs, vkNode(e))
		}
	}
	n.Vals = []KNode{}
	if l, ok := m["vals"].([]interface{}); ok {
		for _, e := range l {
			if c := vkNode(e); c != nil {
				n.Vals = append(n.Vals, *c)
			}
		}
	}
	if a, ok := m["any"].(map[string]interface{}); ok && !vkIsNil(a) {
		switch a["t"] {
		case "str":
			n.Any, _ = a["sv"].(string)
		case "node":
			if c := vkNode(a["v"]); c != nil {
				n.Any = *c
			}
		case "alt":
			if c := vkNode(a["v"]); c != nil {
				n.Any = KAlt{List: c.List, Num: c.Num, Name: c.Name, Sub: c.Sub}
			}
		case "ptr":
			n.Any = vkNode(a["v"]) // may be a typed nil pointer
		}
	}
	if p, ok := m["pp"].(map[string]interface{}); ok && !vkIsNil(p) {
		inner := vkNode(p["p"])
		n.Pp = &inner
	}
	n.Nest = [][]string{}
	if l, ok := m["nest"].([]interface{}); ok {
		for _, e := range l {
			n.Nest = append(n.Nest, vkStrs(e))
		}
	}
	if e, ok := m["emb"].(map[string]interface{}); ok && !vkIsNil(e) {
		s, _ := e["s"].(string)
		n.KEmb = &KEmb{Emb: s}
	}
	return n
}

func TestVerifKeyPath(t *testing.T) {
	in, out := os.Getenv("VERIF_IN"), os.Getenv("VERIF_OUT")
	if in == "" || out == "" {
		t.Skip("VERIF_IN/VERIF_OUT not set")
	}
	fi, err := os.Open(in)
	if err != nil {
		t.Fatal(err)
	}
	defer fi.Close()
	fo, err := os.Create(out)
	if err != nil {
		t.Fatal(err)
	}
	defer fo.Close()
	bw := bufio.NewWriterSize(fo, 1<<20)
	defer bw.Flush()
	enc := json.NewEncoder(bw)
	sc := bufio.NewScanner(fi)
	sc.Buffer(make([]byte, 1<<20), 1<<26)
	n := 0
	var held []map[string]interface{}
	for sc.Scan() {
		if len(sc.Bytes()) == 0 {
			continue
		}
		var v map[string]interface{}
		if e := json.Unmarshal(sc.Bytes(), &v); e != nil {
			t.Fatalf("bad vector: %v", e)
		}
		segs := vkStrs(v["path"])
		locator := strings.Join(segs, ".")
		var msg interface{}
		switch v["top"] {
		case "ptr":
			msg = vkNode(v["n"])
		case "val":
			if c := vkNode(v["n"]); c != nil {
				msg = *c
			}
		case "nilptr":
			msg = (*KNode)(nil)
		case "nil":
			msg = nil
		case "str":
			msg = "s"
		}
		var keys []string
		var kerr error
		panicked := false
		pmsg := ""
		func() {
			defer func() {
				if p := recover(); p != nil {
					panicked = true
					pmsg = fmt.Sprint(p)
				}
			}()
			keys, kerr = getAffinityKeysFromMessage(locator, msg)
		}()
		if keys == nil {
			keys = []string{}
		}
		v["id"] = n
		v["rok"] = kerr == nil && !panicked
		v["rkeys"] = keys // the slice the function returned, looked at only after every other vector has run
		v["panic"] = panicked
		v["pmsg"] = pmsg
		held = append(held, v)
		n++
	}
	// results are written out at the end: a returned slice must still hold the extracted keys after later extractions
	// (a caller such as the BIND completion consumes it key by key while other calls extract theirs)
	for _, v := range held {
		if e := enc.Encode(v); e != nil {
			t.Fatal(e)
		}
	}
	fmt.Printf("VERIF-KEYPATH vectors=%d\n", n)
}
