//go:build verif

package grpcgcp

// C10 race drivers (binary built with -race). The pool driver respects gRPC's concurrency contract:
// one goroutine issues the balancer callbacks (serialised), many goroutines pick and complete calls
// concurrently with it and with each other. The GCPMultiEndpoint driver runs RPCs concurrently with
// UpdateMultiEndpoints. The race detector is the observer; its reports are parsed by the check.

import (
	"context"
	"encoding/json"
	"fmt"
	"math/rand"
	"os"
	"runtime"
	"strconv"
	"sync"
	"sync/atomic"
	"testing"
	"time"

	"google.golang.org/grpc"
	"google.golang.org/grpc/balancer"
	"google.golang.org/grpc/codes"
	"google.golang.org/grpc/connectivity"
	"google.golang.org/grpc/resolver"
	"google.golang.org/grpc/status"
	"reflect"
	"unsafe"
)

type vrSC struct{ id int }

func (s *vrSC) UpdateAddresses([]resolver.Address) {}
func (s *vrSC) Connect()                           {}
func (s *vrSC) GetOrBuildProducer(balancer.ProducerBuilder) (balancer.Producer, func()) {
	return nil, func() {}
}

type vrFakeCC struct {
	mu    sync.Mutex
	conns []*vrSC
	pubs  []balancer.State
}

func (f *vrFakeCC) NewSubConn(a []resolver.Address, o balancer.NewSubConnOptions) (balancer.SubConn, error) {
	f.mu.Lock()
	defer f.mu.Unlock()
	if len(a) == 0 {
		return nil, fmt.Errorf("empty address list")
	}
	sc := &vrSC{id: len(f.conns) + 1}
	f.conns = append(f.conns, sc)
	return sc, nil
}
func (f *vrFakeCC) RemoveSubConn(balancer.SubConn)                       {}
func (f *vrFakeCC) UpdateAddresses(balancer.SubConn, []resolver.Address) {}
func (f *vrFakeCC) ResolveNow(resolver.ResolveNowOptions)                {}
func (f *vrFakeCC) Target() string                                       { return "verif-race" }
func (f *vrFakeCC) UpdateState(s balancer.State) {
	f.mu.Lock()
	f.pubs = append(f.pubs, s)
	if len(f.pubs) > 64 {
		f.pubs = f.pubs[len(f.pubs)-32:]
	}
	f.mu.Unlock()
}
func (f *vrFakeCC) picker(r *rand.Rand) balancer.Picker {
	f.mu.Lock()
	defer f.mu.Unlock()
	if len(f.pubs) == 0 {
		return nil
	}
	if r.Intn(6) == 0 {
		return f.pubs[r.Intn(len(f.pubs))].Picker
	}
	return f.pubs[len(f.pubs)-1].Picker
}
func (f *vrFakeCC) conn(r *rand.Rand) *vrSC {
	f.mu.Lock()
	defer f.mu.Unlock()
	if len(f.conns) == 0 {
		return nil
	}
	if r.Intn(3) > 0 && len(f.conns) > 2 {
		return f.conns[len(f.conns)-1-r.Intn(3)]
	}
	return f.conns[r.Intn(len(f.conns))]
}

type vrDone struct {
	done func(balancer.DoneInfo)
	ctx  *vCtx
	bind bool
	rep  *vMsg
}

func vrPoolRound(seed int64, cfg vCfg, workers, iters int) (pool int, leak int, cntok bool) {
	fcc := &vrFakeCC{}
	gb := balancer.Get(Name).Build(fcc, balancer.BuildOptions{}) // the registered builder instance, as gRPC does
	bc := &GCPBalancerConfig{ApiConfig: vApiConfig(cfg)}
	gb.UpdateClientConnState(balancer.ClientConnState{ResolverState: resolver.State{Addresses: vAddrs(1)}, BalancerConfig: bc})
	for _, c := range fcc.conns {
		gb.UpdateSubConnState(c, balancer.SubConnState{ConnectivityState: connectivity.Ready})
	}
	var stop int32
	var wg sync.WaitGroup
	envDone := make(chan struct{})
	dones := make(chan vrDone, 256)
	// environment: serialised balancer callbacks + clock
	go func() {
		defer close(envDone)
		r := rand.New(rand.NewSource(seed))
		states := []connectivity.State{connectivity.Ready, connectivity.Ready, connectivity.Ready, connectivity.Connecting, connectivity.TransientFailure, connectivity.Idle}
		for atomic.LoadInt32(&stop) == 0 {
			switch k := r.Intn(20); {
			case k < 14:
				if c := fcc.conn(r); c != nil {
					gb.UpdateSubConnState(c, balancer.SubConnState{ConnectivityState: states[r.Intn(len(states))]})
				}
			case k < 16:
				gb.UpdateClientConnState(balancer.ClientConnState{ResolverState: resolver.State{Addresses: vAddrs(1 + r.Intn(2))}, BalancerConfig: bc})
			case k < 17:
				gb.ResolverError(fmt.Errorf("x"))
			default:
				verifAddTicks(int64(1 + r.Intn(4)))
			}
			if r.Intn(4) == 0 {
				time.Sleep(time.Duration(r.Intn(50)) * time.Microsecond)
			}
		}
	}()
	methods := []string{vmPlain, vmPlain, vmBind, vmBind, vmBound, vmBound, vmUnbind}
	for w := 0; w < workers; w++ {
		wg.Add(1)
		go func(w int) {
			defer wg.Done()
			r := rand.New(rand.NewSource(seed*131 + int64(w)))
			for i := 0; i < iters; i++ {
				// complete somebody's call (cross-goroutine completions on the same channel)
				select {
				case d := <-dones:
					var err error
					switch r.Intn(4) {
					case 1:
						err = status.Error(codes.Unavailable, "x")
					case 2, 3:
						err = status.Error(codes.DeadlineExceeded, context.DeadlineExceeded.Error())
					}
					if d.bind && err == nil {
						d.rep.List = []string{"k" + strconv.Itoa(1+r.Intn(3))}
					}
					d.done(balancer.DoneInfo{Err: err})
					d.ctx.end(context.Canceled)
				default:
				}
				p := fcc.picker(r)
				if p == nil {
					continue
				}
				m := methods[r.Intn(len(methods))]
				dl := int64(0)
				if r.Intn(2) == 0 {
					dl = verifGetTicks() + int64(r.Intn(3))
				}
				ctx := newVCtx(dl)
				req := &vMsg{List: []string{"k" + strconv.Itoa(1+r.Intn(3))}}
				rep := &vMsg{}
				if m == vmBind {
					// a round-robin BIND may wait for its channel: bound the wait
					go func() { time.Sleep(2 * time.Millisecond); ctx.end(context.DeadlineExceeded) }()
				}
				var pr balancer.PickResult
				var perr error
				func() {
					defer func() { recover() }()
					_ = GCPUnaryClientInterceptor(ctx, m, req, rep, nil,
						func(c context.Context, method string, rq, rp interface{}, cc *grpc.ClientConn, opts ...grpc.CallOption) error {
							pr, perr = p.Pick(balancer.PickInfo{FullMethodName: method, Ctx: c})
							return perr
						})
				}()
				if perr == nil && pr.Done != nil {
					select {
					case dones <- vrDone{done: pr.Done, ctx: ctx, bind: m == vmBind, rep: rep}:
					default:
						pr.Done(balancer.DoneInfo{})
					}
				}
			}
		}(w)
	}
	wg.Wait()
	atomic.StoreInt32(&stop, 1)
	<-envDone
	// quiescent now: complete what is still open, then the bookkeeping must be consistent again
	for {
		select {
		case d := <-dones:
			d.done(balancer.DoneInfo{})
			d.ctx.end(context.Canceled)
			continue
		default:
		}
		break
	}
	g := gb.(*gcpBalancer)
	g.mu.Lock()
	pool = len(g.scRefs)
	for _, ref := range g.scRefList {
		leak += int(ref.getStreamsCnt())
	}
	var nr, nc, nt uint64
	for _, st := range g.scStates {
		switch st {
		case connectivity.Ready:
			nr++
		case connectivity.Connecting:
			nc++
		case connectivity.TransientFailure:
			nt++
		}
	}
	cntok = len(g.scStates) == len(g.scRefs)
	// the evaluator's counters are read by name: a balancer that keeps them differently is simply not compared here
	func() {
		defer func() { recover() }()
		cse := reflect.ValueOf(g).Elem().FieldByName("csEvltr").Elem()
		cntok = cntok && nr == cse.FieldByName("numReady").Uint() && nc == cse.FieldByName("numConnecting").Uint() &&
			nt == cse.FieldByName("numTransientFailure").Uint()
	}()
	g.mu.Unlock()
	return
}

func TestVerifRacePool(t *testing.T) {
	if os.Getenv("VERIF_RACE") == "" {
		t.Skip("VERIF_RACE not set")
	}
	seed, _ := strconv.ParseInt(os.Getenv("VERIF_SEED"), 10, 64)
	rounds, _ := strconv.Atoi(os.Getenv("VERIF_N"))
	if rounds == 0 {
		rounds = 10
	}
	cfgs := []vCfg{
		{Min: 2, Max: 3, Wm: 2, Fb: true, Uc: 1, Ums: 2, Rr: true},
		{Min: 1, Max: 3, Wm: 1, Uc: 1, Ums: 1},
		{Min: 3, Max: 3, Wm: 100, Rr: true},
		{Min: 2, Max: 2, Wm: 3, Fb: true},
	}
	var enc *json.Encoder
	if out := os.Getenv("VERIF_OUT"); out != "" {
		fo, err := os.Create(out)
		if err != nil {
			t.Fatal(err)
		}
		defer fo.Close()
		enc = json.NewEncoder(fo)
	}
	if os.Getenv("VERIF_JITTER") != "" {
		r := rand.New(rand.NewSource(seed))
		var jmu sync.Mutex
		verifYieldFn = func(site string) {
			jmu.Lock()
			x := r.Intn(100)
			jmu.Unlock()
			if x < 20 {
				time.Sleep(time.Duration(10+x*4) * time.Microsecond)
			} else if x < 60 {
				runtime.Gosched()
			}
		}
		defer func() { verifYieldFn = nil }()
	}
	for k := 0; k < rounds; k++ {
		verifSetTicks(0)
		cfg := cfgs[k%len(cfgs)]
		pool, leak, cntok := vrPoolRound(seed*1000+int64(k), cfg, 6, 300)
		if enc != nil {
			sid := fmt.Sprintf("conc-%d", k)
			enc.Encode(vsgEvent{Sid: sid, Op: "reset", Res: "OK", Cfg: cfg})
			enc.Encode(vsgEvent{Sid: sid, I: 1, Op: "stress", Kind: "conc", Pool: pool, Max: cfg.Max, Leak: leak, CntOk: cntok, Res: "OK"})
		}
	}
	fmt.Printf("VERIF-RACE-POOL rounds=%d\n", rounds)
}

// ---- GCPMultiEndpoint: RPCs concurrently with UpdateMultiEndpoints / Close

func TestVerifRaceGME(t *testing.T) {
	if os.Getenv("VERIF_RACE") == "" {
		t.Skip("VERIF_RACE not set")
	}
	seed, _ := strconv.ParseInt(os.Getenv("VERIF_SEED"), 10, 64)
	rounds, _ := strconv.Atoi(os.Getenv("VERIF_N"))
	if rounds == 0 {
		rounds = 3
	}
	for k := 0; k < rounds; k++ {
		h := newVGHarness()
		st := vgStep{Mes: []vgME{{Name: "m1", Eps: []string{"a", "b"}}, {Name: "m2", Eps: []string{"b", "c"}}}, Def: "m1"}
		g, err := NewGCPMultiEndpoint(h.opts(st))
		if err != nil {
			t.Fatal(err)
		}
		var wg sync.WaitGroup
		var stop int32
		for w := 0; w < 3; w++ {
			wg.Add(1)
			go func(w int) {
				defer wg.Done()
				r := rand.New(rand.NewSource(seed + int64(w)))
				names := []string{"", "m1", "m2", "zz"}
				for atomic.LoadInt32(&stop) == 0 {
					ctx, cancel := context.WithTimeout(context.Background(), 50*time.Millisecond)
					if n := names[r.Intn(len(names))]; n != "" {
						ctx = NewMEContext(ctx, n)
					}
					func() {
						defer func() { recover() }()
						vgCall(g, ctx, r.Intn(3) == 0)
					}()
					cancel()
				}
			}(w)
		}
		r := rand.New(rand.NewSource(seed))
		opts := []vgStep{
			{Mes: []vgME{{Name: "m1", Eps: []string{"b", "a"}}, {Name: "m2", Eps: []string{"c"}}}, Def: "m2"},
			{Mes: []vgME{{Name: "m1", Eps: []string{"a", "b"}}, {Name: "m2", Eps: []string{"b", "c"}}}, Def: "m1"},
			{Mes: []vgME{{Name: "m1", Eps: []string{"c"}}}, Def: "m1"},
			{Mes: []vgME{{Name: "m1", Eps: []string{"a"}}, {Name: "m3", Eps: []string{"a", "c"}}}, Def: "m3"},
		}
		// a second updater: applications may reconfigure from several goroutines (UpdateMultiEndpoints calls overlap, some
		// adding pools and some removing them)
		wg.Add(1)
		go func() {
			defer wg.Done()
			r2 := rand.New(rand.NewSource(seed*31 + 7))
			for atomic.LoadInt32(&stop) == 0 {
				g.UpdateMultiEndpoints(h.opts(opts[r2.Intn(len(opts))]))
				_ = g.GCPConfig()
				time.Sleep(time.Duration(r2.Intn(2000)) * time.Microsecond)
			}
		}()
		for i := 0; i < 12; i++ {
			g.UpdateMultiEndpoints(h.opts(opts[r.Intn(len(opts))]))
			_ = g.GCPConfig()
			time.Sleep(time.Duration(1+r.Intn(3)) * time.Millisecond)
			if i%4 == 1 {
				h.servers["a"].stop()
			}
			if i%4 == 3 {
				h.servers["a"].start()
			}
		}
		atomic.StoreInt32(&stop, 1)
		wg.Wait()
		g.Close()
		for _, s := range h.servers {
			s.stop()
		}
	}
	fmt.Printf("VERIF-RACE-GME rounds=%d\n", rounds)
}

// ---- schedule stress for the growth decision (C03 under concurrent picks on different pickers).
// Built with the yield rewrite (verifYield in front of every Lock): the yields sleep at random so that
// the window between reading the pool size and creating the connection is wide open.

type vsgEvent struct {
	Sid   string `json:"sid"`
	I     int    `json:"i"`
	Op    string `json:"op"`
	Kind  string `json:"kind"`
	Pool  int    `json:"pool"`
	Max   int    `json:"max"`
	News  int    `json:"news"`
	Leak  int    `json:"leak"`  // sum of the stream counters after every call completed
	CntOk bool   `json:"cntok"` // evaluator counters equal the cardinalities of the recorded states
	RRMin int    `json:"rrmin"` // round-robin rounds: fewest / most BIND calls handed to one channel
	RRMax int    `json:"rrmax"`
	Res   string `json:"res"`
	Cfg   vCfg   `json:"cfg"`
}

func vsgRound(seed int64, max int) (pool int, news int) {
	fcc := &vrFakeCC{}
	gb := balancer.Get(Name).Build(fcc, balancer.BuildOptions{}) // the registered builder instance, as gRPC does
	cfg := vCfg{Min: 2, Max: max, Wm: 1}
	bc := &GCPBalancerConfig{ApiConfig: vApiConfig(cfg)}
	gb.UpdateClientConnState(balancer.ClientConnState{ResolverState: resolver.State{Addresses: vAddrs(1)}, BalancerConfig: bc})
	// two publications: first channel READY, then both -> two distinct picker objects
	gb.UpdateSubConnState(fcc.conns[0], balancer.SubConnState{ConnectivityState: connectivity.Ready})
	gb.UpdateSubConnState(fcc.conns[1], balancer.SubConnState{ConnectivityState: connectivity.Ready})
	fcc.mu.Lock()
	pubs := append([]balancer.State{}, fcc.pubs...)
	fcc.mu.Unlock()
	latest := pubs[len(pubs)-1].Picker
	stale := pubs[0].Picker
	// saturate both channels (watermark 1)
	for k := 0; k < 2; k++ {
		latest.Pick(balancer.PickInfo{FullMethodName: vmPlain, Ctx: context.Background()})
	}
	base := len(fcc.conns)
	r := rand.New(rand.NewSource(seed))
	var jmu sync.Mutex
	verifYieldFn = func(site string) {
		jmu.Lock()
		x := r.Intn(100)
		jmu.Unlock()
		if x < 45 {
			time.Sleep(time.Duration(20+x*6) * time.Microsecond)
		} else {
			runtime.Gosched()
		}
	}
	defer func() { verifYieldFn = nil }()
	var stop int32
	envDone := make(chan struct{})
	go func() {
		defer close(envDone)
		for atomic.LoadInt32(&stop) == 0 {
			fcc.mu.Lock()
			n := len(fcc.conns)
			var last *vrSC
			if n > base {
				last = fcc.conns[n-1]
			}
			fcc.mu.Unlock()
			if last != nil {
				gb.UpdateSubConnState(last, balancer.SubConnState{ConnectivityState: connectivity.Ready})
			}
			time.Sleep(10 * time.Microsecond)
		}
	}()
	var wg sync.WaitGroup
	for _, p := range []balancer.Picker{latest, stale, latest} {
		wg.Add(1)
		go func(p balancer.Picker) {
			defer wg.Done()
			for k := 0; k < 3; k++ {
				p.Pick(balancer.PickInfo{FullMethodName: vmPlain, Ctx: context.Background()})
			}
		}(p)
	}
	wg.Wait()
	atomic.StoreInt32(&stop, 1)
	<-envDone
	g := gb.(*gcpBalancer)
	g.mu.Lock()
	pool = len(g.scRefs)
	g.mu.Unlock()
	return pool, len(fcc.conns) - base
}

func TestVerifStressGrowth(t *testing.T) {
	out := os.Getenv("VERIF_OUT")
	if out == "" {
		t.Skip("VERIF_OUT not set")
	}
	seed, _ := strconv.ParseInt(os.Getenv("VERIF_SEED"), 10, 64)
	rounds, _ := strconv.Atoi(os.Getenv("VERIF_N"))
	if rounds == 0 {
		rounds = 50
	}
	fo, err := os.Create(out)
	if err != nil {
		t.Fatal(err)
	}
	defer fo.Close()
	enc := json.NewEncoder(fo)
	for k := 0; k < rounds; k++ {
		max := 3 + k%2
		enc.Encode(vsgEvent{Sid: fmt.Sprintf("stress-%d", k), Op: "reset", Res: "OK", Cfg: vCfg{Min: 2, Max: max, Wm: 1}})
		pool, news := vsgRound(seed*100000+int64(k), max)
		enc.Encode(vsgEvent{Sid: fmt.Sprintf("stress-%d", k), I: 1, Op: "stress", Kind: "growth", Pool: pool, Max: max, News: news, CntOk: true, Res: "OK"})
	}
	fmt.Printf("VERIF-STRESS-GROWTH rounds=%d\n", rounds)
}

// ---- round-robin BIND under concurrency and across the 2^31 boundary of the cursor (C09).
// n READY channels, w goroutines x m BIND picks with n | w*m: "any n x k consecutive BIND calls put exactly k on each
// channel" - concurrent calls are consecutive in some order, so the totals per channel must be equal. Kind "rrwrap": the
// cursor is set close to 2^31 first (white-box; stands for a history of two billion BIND calls) and 4n sequential BINDs
// must still rotate.
func vrrRound(seed int64, n, workers, per int, wrap bool) (min, max int, res string) {
	fcc := &vrFakeCC{}
	gb := balancer.Get(Name).Build(fcc, balancer.BuildOptions{}) // the registered builder instance, as gRPC does
	cfg := vCfg{Min: n, Max: n, Wm: 100, Rr: true}
	bc := &GCPBalancerConfig{ApiConfig: vApiConfig(cfg)}
	gb.UpdateClientConnState(balancer.ClientConnState{ResolverState: resolver.State{Addresses: vAddrs(1)}, BalancerConfig: bc})
	for _, c := range fcc.conns {
		gb.UpdateSubConnState(c, balancer.SubConnState{ConnectivityState: connectivity.Ready})
	}
	fcc.mu.Lock()
	picker := fcc.pubs[len(fcc.pubs)-1].Picker
	conns := append([]*vrSC{}, fcc.conns...)
	fcc.mu.Unlock()
	counts := make([]int64, len(conns))
	idx := map[balancer.SubConn]int{}
	for i, c := range conns {
		idx[c] = i
	}
	res = "OK"
	var bad int32
	one := func() {
		defer func() {
			if p := recover(); p != nil {
				atomic.StoreInt32(&bad, 1)
			}
		}()
		pr, err := picker.Pick(balancer.PickInfo{FullMethodName: vmBind, Ctx: context.Background()})
		if err != nil {
			atomic.StoreInt32(&bad, 2)
			return
		}
		if i, ok := idx[pr.SubConn]; ok {
			atomic.AddInt64(&counts[i], 1)
		}
		if pr.Done != nil {
			pr.Done(balancer.DoneInfo{})
		}
	}
	if wrap {
		f := reflect.ValueOf(gb).Elem().FieldByName("rrRefId")
		if f.IsValid() {
			pf := reflect.NewAt(f.Type(), unsafe.Pointer(f.UnsafeAddr())).Elem()
			switch pf.Kind() {
			case reflect.Uint32, reflect.Uint64, reflect.Uint:
				pf.SetUint(1<<31 - 5)
			case reflect.Int32, reflect.Int64, reflect.Int:
				pf.SetInt(1<<31 - 5)
			}
		}
		for k := 0; k < 4*n; k++ {
			one()
		}
	} else {
		var wg sync.WaitGroup
		for w := 0; w < workers; w++ {
			wg.Add(1)
			go func() {
				defer wg.Done()
				for k := 0; k < per; k++ {
					one()
				}
			}()
		}
		wg.Wait()
	}
	switch atomic.LoadInt32(&bad) {
	case 1:
		res = "PANIC"
	case 2:
		res = "ERR"
	}
	min, max = int(counts[0]), int(counts[0])
	for _, c := range counts {
		if int(c) < min {
			min = int(c)
		}
		if int(c) > max {
			max = int(c)
		}
	}
	return
}

func TestVerifStressRR(t *testing.T) {
	out := os.Getenv("VERIF_OUT")
	if out == "" {
		t.Skip("VERIF_OUT not set")
	}
	seed, _ := strconv.ParseInt(os.Getenv("VERIF_SEED"), 10, 64)
	rounds, _ := strconv.Atoi(os.Getenv("VERIF_N"))
	if rounds == 0 {
		rounds = 10
	}
	fo, err := os.Create(out)
	if err != nil {
		t.Fatal(err)
	}
	defer fo.Close()
	enc := json.NewEncoder(fo)
	for k := 0; k < rounds; k++ {
		n := 2 + k%3
		cfg := vCfg{Min: n, Max: n, Wm: 100, Rr: true}
		sid := fmt.Sprintf("rr-%d", k)
		enc.Encode(vsgEvent{Sid: sid, Op: "reset", Res: "OK", Cfg: cfg})
		wrap := k%4 == 3
		kind := "rr"
		if wrap {
			kind = "rrwrap"
		}
		mn, mx, res := vrrRound(seed*1000+int64(k), n, 12, 500*n, wrap)
		enc.Encode(vsgEvent{Sid: sid, I: 1, Op: "stress", Kind: kind, RRMin: mn, RRMax: mx, CntOk: true, Res: res})
	}
	fmt.Printf("VERIF-STRESS-RR rounds=%d\n", rounds)
}
