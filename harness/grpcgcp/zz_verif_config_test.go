//go:build verif

package grpcgcp

// C17 harness (configuration text): renders every configuration record enumerated by TLC from
// specs/Config.tla as JSON (field names are the proto-JSON names), applies the requested corruption,
// runs the real ParseConfig, projects the parsed message, re-marshals it with protojson and parses it
// again (round trip). Also records GCPMultiEndpoint's copy semantics of the configuration.

import (
	"bufio"
	"context"
	"encoding/json"
	"fmt"
	"os"
	"strings"
	"testing"
	"time"

	"github.com/GoogleCloudPlatform/grpc-gcp-go/grpcgcp/multiendpoint"
	"google.golang.org/protobuf/encoding/protojson"
	"google.golang.org/protobuf/proto"

	pb "github.com/GoogleCloudPlatform/grpc-gcp-go/grpcgcp/grpc_gcp"
)

func vcfProject(c *pb.ApiConfig) (map[string]interface{}, []interface{}) {
	pool := map[string]interface{}{"z": true}
	if cp := c.GetChannelPool(); cp != nil {
		pool = map[string]interface{}{"z": false, "maxSize": int(cp.GetMaxSize()), "minSize": int(cp.GetMinSize()),
			"maxConcurrentStreamsLowWatermark": int(cp.GetMaxConcurrentStreamsLowWatermark()), "fallbackToReady": cp.GetFallbackToReady(),
			"unresponsiveDetectionMs": int(cp.GetUnresponsiveDetectionMs()), "unresponsiveCalls": int(cp.GetUnresponsiveCalls()),
			"bindPickStrategy": cp.GetBindPickStrategy().String(), "idleTimeout": fmt.Sprint(cp.GetIdleTimeout())}
	}
	ms := []interface{}{}
	for _, m := range c.GetMethod() {
		names := []interface{}{}
		for _, n := range m.GetName() {
			names = append(names, n)
		}
		e := map[string]interface{}{"name": names, "hasaff": m.GetAffinity() != nil, "command": "", "affinityKey": ""}
		if a := m.GetAffinity(); a != nil {
			e["command"] = a.GetCommand().String()
			e["affinityKey"] = a.GetAffinityKey()
		}
		ms = append(ms, e)
	}
	return pool, ms
}

var vcfSnake = strings.NewReplacer("channelPool", "channel_pool", "maxSize", "max_size", "minSize", "min_size",
	"maxConcurrentStreamsLowWatermark", "max_concurrent_streams_low_watermark", "fallbackToReady", "fallback_to_ready",
	"unresponsiveDetectionMs", "unresponsive_detection_ms", "unresponsiveCalls", "unresponsive_calls",
	"bindPickStrategy", "bind_pick_strategy", "idleTimeout", "idle_timeout", "affinityKey", "affinity_key")

func TestVerifConfig(t *testing.T) {
	in, out := os.Getenv("VERIF_IN"), os.Getenv("VERIF_OUT")
	if in == "" || out == "" {
		t.Skip("VERIF_IN/VERIF_OUT not set")
	}
	fi, err := os.Open(in)
	if err != nil {
		t.Fatal(err)
	}
	defer fi.Close()
	fo, err := os.Create(out)
	if err != nil {
		t.Fatal(err)
	}
	defer fo.Close()
	bw := bufio.NewWriterSize(fo, 1<<20)
	defer bw.Flush()
	enc := json.NewEncoder(bw)
	sc := bufio.NewScanner(fi)
	sc.Buffer(make([]byte, 1<<20), 1<<24)
	bb := newBuilder().(*gcpBalancerBuilder)
	id := 0
	for sc.Scan() {
		if len(sc.Bytes()) == 0 {
			continue
		}
		var v map[string]interface{}
		if e := json.Unmarshal(sc.Bytes(), &v); e != nil {
			t.Fatalf("bad vector: %v", e)
		}
		v["id"] = id
		id++
		v["panic"], v["pok"], v["roundtrip"] = false, false, false
		v["ppool"], v["pmethod"] = map[string]interface{}{"z": true}, []interface{}{}
		func() {
			defer func() {
				if p := recover(); p != nil {
					v["panic"] = true
				}
			}()
			obj := map[string]interface{}{}
			if pool, ok := v["pool"].(map[string]interface{}); ok {
				if z, _ := pool["z"].(bool); !z {
					cp := map[string]interface{}{}
					for k, x := range pool {
						if k != "z" {
							cp[k] = x
						}
					}
					obj["channelPool"] = cp
				}
			}
			if ms, ok := v["method"].([]interface{}); ok && len(ms) > 0 {
				obj["method"] = ms
			}
			txt, _ := json.Marshal(obj)
			s := string(txt)
			switch v["corrupt"] {
			case "unknown":
				s = strings.Replace(s, "{", `{"noSuchField":1,`, 1)
				if s == `{"noSuchField":1,}` {
					s = `{"noSuchField":1}`
				}
			case "wrongtype":
				if strings.Contains(s, `"channelPool":{`) {
					s = strings.Replace(s, `"channelPool":{`, `"channelPool":{"maxSize":"many",`, 1)
					s = strings.Replace(s, `,}`, `}`, 1)
				} else {
					s = strings.Replace(s, "{", `{"method":7,`, 1)
					s = strings.Replace(s, `,}`, `}`, 1)
					if strings.Count(s, `"method"`) > 1 {
						s = `{"method":7}`
					}
				}
			case "garbage":
				s = s + "x"
			case "array":
				s = "[" + s + "]"
			case "snake":
				s = vcfSnake.Replace(s)
			}
			v["text"] = s
			cfg, perr := bb.ParseConfig(json.RawMessage(s))
			if perr != nil {
				return
			}
			gc, ok := cfg.(*GCPBalancerConfig)
			if !ok || gc.ApiConfig == nil {
				return
			}
			v["pok"] = true
			v["ppool"], v["pmethod"] = vcfProject(gc.ApiConfig)
			again, merr := protojson.Marshal(gc.ApiConfig)
			if merr == nil {
				cfg2, perr2 := bb.ParseConfig(json.RawMessage(again))
				if perr2 == nil {
					v["roundtrip"] = proto.Equal(cfg2.(*GCPBalancerConfig).ApiConfig, gc.ApiConfig)
				}
			}
		}()
		if e := enc.Encode(v); e != nil {
			t.Fatal(e)
		}
	}
	// GCPMultiEndpoint never mutates or aliases the caller's configuration; GCPConfig() is an equal deep copy
	for k := 0; k < 6; k++ {
		ev := map[string]interface{}{"kind": "gmecfg", "id": id, "panic": false, "equal": false, "copyindep": false, "callerindep": false}
		id++
		func() {
			defer func() {
				if p := recover(); p != nil {
					ev["panic"] = true
				}
			}()
			h := newVGHarness()
			defer func() {
				for _, s := range h.servers {
					s.stop()
				}
			}()
			orig := vApiConfig(vCfg{Min: 1 + k, Max: 3, Wm: 5, Fb: k%2 == 0, Uc: 2, Ums: 100})
			switch k {
			case 3:
				orig = nil // no gRPC-GCP configuration at all
			case 4:
				orig = vApiConfig(vCfg{NoPool: true}) // method entries only
			}
			keep := proto.Clone(orig).(*pb.ApiConfig)
			g, err := NewGCPMultiEndpoint(&GCPMultiEndpointOptions{GRPCgcpConfig: orig,
				MultiEndpoints: map[string]*multiendpoint.MultiEndpointOptions{"m1": {Endpoints: []string{"a"}}}, Default: "m1", DialFunc: h.dialFunc})
			if err != nil {
				return
			}
			defer g.Close()
			if k == 5 {
				// a reconfiguration carries its own options object (with another configuration): the object's configuration stays
				other := vApiConfig(vCfg{Min: 2, Max: 2, Wm: 9})
				if e := g.UpdateMultiEndpoints(&GCPMultiEndpointOptions{GRPCgcpConfig: other,
					MultiEndpoints: map[string]*multiendpoint.MultiEndpointOptions{"m1": {Endpoints: []string{"b", "a"}}}, Default: "m1", DialFunc: h.dialFunc}); e != nil {
					return
				}
				other.ChannelPool.MaxSize = 55
			}
			c1 := g.GCPConfig()
			ev["equal"] = proto.Equal(c1, keep) && proto.Equal(orig, keep) && (c1 == nil) == (keep == nil)
			if c1 != nil {
				c1.ChannelPool = &pb.ChannelPoolConfig{MaxSize: 99}
				c1.Method = nil
			}
			ev["copyindep"] = proto.Equal(g.GCPConfig(), keep)
			if orig != nil {
				orig.ChannelPool = &pb.ChannelPoolConfig{MinSize: 77}
				orig.Method[0].Name[0] = "/changed"
			}
			ev["callerindep"] = proto.Equal(g.GCPConfig(), keep)
			// the object is usable with this configuration
			ctx, cancel := context.WithTimeout(context.Background(), 2*time.Second)
			_, cerr := vgCall(g, ctx, k%2 == 1)
			cancel()
			if cerr != nil {
				ev["equal"] = false
			}
		}()
		enc.Encode(ev)
	}
	fmt.Printf("VERIF-CONFIG vectors=%d\n", id)
}
