//go:build verif

package grpcgcp

// Concurrent sections of pool scripts (op "conc"): the operations of a section run as goroutines of the real code and
// are stepped, one at a time, from lock acquisition to lock acquisition in the order given by a schedule that TLC
// generated from specs/LockSched.tla. The gates are the verifLock calls which the overlay's rewrite puts in front of
// every Lock/RLock statement of gcp_balancer.go / gcp_picker.go; verifUnlock reports releases. Nothing here decides a
// verdict: the section is recorded (results, intervals, ClientConn calls per operation, lock events) and judged by
// PoolTrace through the linearizations that tools/conc.py enumerates.

import (
	"context"
	"errors"
	"fmt"
	"strconv"
	"sync"
	"sync/atomic"
	"time"

	"google.golang.org/grpc/balancer"
	"google.golang.org/grpc/codes"
	"google.golang.org/grpc/connectivity"
	"google.golang.org/grpc/resolver"
	"google.golang.org/grpc/status"
)

type vLk struct {
	A string `json:"a"` // acq | rel
	G string `json:"g"` // gate site (func#n), acq only
	L string `json:"l"` // lock name: gb | p<publication> | r<channel> | x<addr>
	K string `json:"k"` // W | R
}

type vProc struct {
	idx      int
	ev       vEvent
	fn       func() vRes
	run      *vRun
	reg      chan struct{}
	at       chan string
	rel      chan struct{}
	state    string // "" (not launched) | gate | lockwait | blocked | done
	lks      []vLk
	start    int
	end      int
	freeRun  int32
	lockWait string
}

type vConc struct {
	h     *vHarness
	name  func(l interface{}) string // lock naming; nil: the pool's locks (lockName)
	mu    sync.Mutex
	byGid map[string]*vProc
	procs []*vProc
	clock int
	exec  []int
	drift int
}

func (c *vConc) lockName(l interface{}) string {
	gb, _ := c.h.gb.(*gcpBalancer)
	switch m := l.(type) {
	case *sync.RWMutex:
		if gb != nil && m == &gb.mu {
			return "gb"
		}
		return fmt.Sprintf("x%p", m)
	case *sync.Mutex:
		if gb != nil {
			for j, ref := range gb.scRefList {
				if ref != nil && m == &ref.mu {
					return "r" + strconv.Itoa(j+1)
				}
			}
		}
		for i, st := range c.h.fcc.pubs {
			if p, ok := st.Picker.(*gcpPicker); ok && m == &p.mu {
				return "p" + strconv.Itoa(i+1)
			}
		}
		return fmt.Sprintf("x%p", m)
	}
	return fmt.Sprintf("x%p", l)
}

func (c *vConc) nameOf(l interface{}) string {
	if c.name != nil {
		return c.name(l)
	}
	return c.lockName(l)
}

func (c *vConc) procOfCurrent() *vProc {
	gid := vCurGID()
	c.mu.Lock()
	p := c.byGid[gid]
	c.mu.Unlock()
	return p
}

func (c *vConc) onLock(site string, l interface{}, kind string) {
	p := c.procOfCurrent()
	if p == nil {
		return
	}
	p.lks = append(p.lks, vLk{A: "acq", G: site, L: c.nameOf(l), K: kind})
	if atomic.LoadInt32(&p.freeRun) != 0 {
		return
	}
	p.at <- site
	<-p.rel
}

// onUnlock: the lock has just been released; the operation parks here too (a gate right after the critical section)
func (c *vConc) onUnlock(site string, l interface{}, kind string) {
	p := c.procOfCurrent()
	if p == nil {
		return
	}
	p.lks = append(p.lks, vLk{A: "rel", G: site, L: c.nameOf(l), K: kind})
	if atomic.LoadInt32(&p.freeRun) != 0 {
		return
	}
	p.at <- site
	<-p.rel
}

// settle waits until p is parked at a gate, has finished, or is parked somewhere else (a lock held by another
// process, or a wait that is not a lock).
func (c *vConc) settle(p *vProc) {
	deadline := time.Now().Add(vWatchdog)
	fast := time.After(200 * time.Microsecond)
	select {
	case <-p.at:
		p.state = "gate"
		return
	case <-p.run.done:
		p.state = "done"
		return
	case <-fast:
	}
	parkedSince := time.Time{}
	last := ""
	for {
		select {
		case <-p.at:
			p.state = "gate"
			return
		case <-p.run.done:
			p.state = "done"
			return
		case <-time.After(500 * time.Microsecond):
		}
		st, frames := vWaitReason(p.run.gid)
		if st == "" {
			<-p.run.done
			p.state = "done"
			return
		}
		if vIsParked(st) {
			if parkedSince.IsZero() || st != last {
				parkedSince, last = time.Now(), st
			}
			if time.Since(parkedSince) > 3*time.Millisecond {
				if vIsLockWait(st) {
					p.state = "lockwait"
				} else {
					p.state = "blocked"
				}
				p.lockWait = st + " " + vCompact(frames)
				return
			}
		} else {
			parkedSince = time.Time{}
		}
		if time.Now().After(deadline) {
			p.state = "blocked"
			p.lockWait = "TIMEOUT " + st
			return
		}
	}
}

// refresh looks at processes that were parked away from a gate: they may have moved on meanwhile.
func (c *vConc) refresh() {
	for _, p := range c.procs {
		if p.state == "lockwait" || p.state == "blocked" {
			select {
			case <-p.at:
				p.state = "gate"
			case <-p.run.done:
				p.state = "done"
			default:
			}
		}
		if p.state == "done" && p.end == 0 {
			c.clock++
			p.end = c.clock
		}
	}
}

func (c *vConc) step(p *vProc) {
	c.clock++
	c.exec = append(c.exec, p.idx)
	if p.state == "" {
		p.start = c.clock
		p.run = vStart(func() vRes { <-p.reg; return p.fn() })
		c.mu.Lock()
		c.byGid[p.run.gid] = p
		c.mu.Unlock()
		close(p.reg)
	} else {
		p.rel <- struct{}{}
	}
	c.settle(p)
	c.refresh()
}

// run installs the gates, executes the schedule and then lets what is left run to completion one gate at a time;
// it reports whether operations stayed parked on mutexes with nobody at a gate.
func (c *vConc) run(sched []int) bool {
	atomic.StoreInt32(&vConcActive, 1)
	verifLockFn, verifUnlockFn = c.onLock, c.onUnlock
	defer func() {
		verifLockFn, verifUnlockFn = nil, nil
		atomic.StoreInt32(&vConcActive, 0)
	}()
	// the schedule
	for _, k := range sched {
		if k < 1 || k > len(c.procs) {
			continue
		}
		p := c.procs[k-1]
		if p.fn == nil {
			continue
		}
		if p.state == "" || p.state == "gate" {
			c.step(p)
		} else {
			c.drift++
		}
	}
	// run what is left to completion, still one gate at a time
	hung := false
	idle := time.Time{}
	for {
		c.refresh()
		progress, left := false, 0
		// one operation per round; an operation parked in front of a write acquisition goes first: when the schedule ended in
		// a state where the model sees nobody enabled, a writer that really blocks on an RWMutex held by a reader is what turns
		// a second RLock of that reader into a deadlock (sync.RWMutex: a pending writer blocks new readers)
		var next *vProc
		for _, p := range c.procs {
			if p.fn == nil || p.state == "done" {
				continue
			}
			left++
			if p.state == "" || p.state == "gate" {
				atW := p.state == "gate" && len(p.lks) > 0 && p.lks[len(p.lks)-1].A == "acq" && p.lks[len(p.lks)-1].K == "W"
				if next == nil || (atW && !(next.state == "gate" && len(next.lks) > 0 && next.lks[len(next.lks)-1].A == "acq" && next.lks[len(next.lks)-1].K == "W")) {
					next = p
				}
			}
		}
		if next != nil {
			c.step(next)
			progress = true
		}
		if left == 0 {
			break
		}
		if progress {
			idle = time.Time{}
			continue
		}
		// nobody is at a gate: a deadlock only if every remaining operation stays parked on a mutex (a goroutine that was
		// woken but has not been given the CPU yet is runnable, not parked)
		allParked := true
		for _, p := range c.procs {
			if p.fn == nil || p.state == "done" {
				continue
			}
			if st, _ := vWaitReason(p.run.gid); !vIsParked(st) {
				allParked = false
			}
		}
		if idle.IsZero() || !allParked {
			idle = time.Now()
		}
		if time.Since(idle) > 600*time.Millisecond {
			for _, p := range c.procs {
				if p.fn != nil && p.state == "lockwait" {
					hung = true
				}
			}
			break
		}
		time.Sleep(time.Millisecond)
	}
	return hung
}

func (h *vHarness) concFn(st vStep, ev *vEvent) (func() vRes, bool) {
	switch st.Op {
	case "state":
		s := vState(st.S)
		return func() vRes {
			// the connection is looked up when the operation runs: it may be created by another operation of the section
			var sc balancer.SubConn
			h.fcc.mu.Lock()
			n := len(h.fcc.conns)
			if st.C >= 1 && st.C <= n {
				sc = h.fcc.conns[st.C-1]
			}
			h.fcc.mu.Unlock()
			if sc == nil {
				if st.C != 0 {
					return vRes{res: "SKIPPED"}
				}
				sc = &vFakeSC{id: -1, fcc: h.fcc}
			}
			h.gb.UpdateSubConnState(sc, balancer.SubConnState{ConnectivityState: s})
			return vRes{res: "OK"}
		}, true
	case "resolve":
		if h.cfgGiven == nil {
			return nil, false
		}
		bc := &GCPBalancerConfig{ApiConfig: h.cfgGiven}
		return func() vRes {
			err := h.gb.UpdateClientConnState(balancer.ClientConnState{ResolverState: resolver.State{Addresses: vAddrs(st.Av)}, BalancerConfig: bc})
			if err != nil {
				return vRes{res: "ERR", msg: err.Error()}
			}
			return vRes{res: "OK"}
		}, true
	case "rerr":
		return func() vRes { h.gb.ResolverError(errors.New("resolver failed")); return vRes{res: "OK"} }, true
	case "pick":
		f, _, ok := h.pickFn(st, ev)
		return f, ok
	case "done":
		if st.N < 1 || st.N > len(h.calls) || !h.calls[st.N-1].open {
			return nil, false
		}
		call := h.calls[st.N-1]
		call.open = false
		var err error
		switch st.Out {
		case "ERR":
			err = status.Error(codes.Unavailable, "unavailable")
		case "CDE":
			err = status.Error(codes.DeadlineExceeded, context.DeadlineExceeded.Error())
		case "SDE":
			err = status.Error(codes.DeadlineExceeded, "deadline exceeded on the server")
		}
		for _, k := range st.Rkeys {
			call.reply.List = append(call.reply.List, "k"+strconv.Itoa(k))
		}
		return func() vRes {
			if call.done != nil {
				call.done(balancer.DoneInfo{Err: err})
			}
			return vRes{res: "OK"}
		}, true
	}
	return nil, false
}

func (h *vHarness) execConc(i int, st vStep, ev *vEvent) {
	if atomic.LoadInt32(&vAnomalies) >= 25 {
		ev.Res = "SKIPPED" // see vAnomalies
		h.dead = true
		return
	}
	c := &vConc{h: h, byGid: map[string]*vProc{}}
	h.fireDeadlines()
	now := int(verifGetTicks())
	for k, ps := range st.Procs {
		sub := vEvent{I: i, T: now, Op: ps.Op, Av: ps.Av, Cfgk: "first", C: ps.C, S: ps.S, Pk: ps.Pk, M: ps.M, NoCtx: ps.NoCtx, Keys: ps.Keys,
			Shape: ps.Shape, N: ps.N, Out: ps.Out, Rkeys: ps.Rkeys, CC: []vCC{}, Probe: "-"}
		if sub.Keys == nil {
			sub.Keys = []int{}
		}
		if sub.Rkeys == nil {
			sub.Rkeys = []int{}
		}
		p := &vProc{idx: k + 1, reg: make(chan struct{}), at: make(chan string, 1), rel: make(chan struct{})}
		fn, ok := h.concFn(ps, &sub)
		if !ok {
			sub.Res = "SKIPPED"
			p.state = "done"
			p.start, p.end = 0, 0
		}
		p.fn, p.ev = fn, sub
		c.procs = append(c.procs, p)
	}
	hung := c.run(st.Sched)
	c.refresh()
	// ClientConn calls go to the operation whose goroutine made them
	for _, e := range h.fcc.take() {
		c.mu.Lock()
		p := c.byGid[e.G]
		c.mu.Unlock()
		if p != nil {
			p.ev.CC = append(p.ev.CC, e)
		} else {
			ev.CC = append(ev.CC, e)
		}
	}
	ev.Res = "OK"
	for _, p := range c.procs {
		sub := p.ev
		switch {
		case p.fn == nil:
		case p.state == "done":
			sub.Res, sub.RC, sub.RN, sub.RT, sub.Msg = p.run.out.res, p.run.out.rc, p.run.out.rn, p.run.out.rt, p.run.out.msg
			if sub.Res == "PANIC" || sub.Res == "SPIN" {
				h.dead = true
			}
		case p.state == "lockwait":
			sub.Res, sub.Msg = "HANG", p.lockWait
		default:
			sub.Res, sub.Msg = "BLOCKED", p.lockWait
		}
		if p.end == 0 {
			c.clock++
			p.end = c.clock
		}
		ev.Sub = append(ev.Sub, sub)
		ev.Ivs = append(ev.Ivs, [2]int{p.start, p.end})
		lk := p.lks
		if lk == nil {
			lk = []vLk{}
		}
		ev.Locks = append(ev.Locks, lk)
	}
	if hung {
		h.dead = true
		ev.Res = "HANG"
	}
	for _, p := range c.procs {
		if p.fn != nil && p.state != "done" {
			atomic.AddInt32(&vAnomalies, 1)
			h.dead = true
		}
	}
	ev.Exec, ev.Drift = c.exec, c.drift
	_ = connectivity.Ready
}
