//go:build verif

package grpcgcp

// GCPMultiEndpoint harness (C15, C16): real *grpc.ClientConn pools over in-process bufconn servers,
// dial failures injected through the API's own DialFunc, endpoint outages by stopping/restarting the
// in-process server. One trace event per input, recorded after the system has settled.

import (
	"bufio"
	"context"
	"encoding/json"
	"errors"
	"fmt"
	"math/rand"
	"net"
	"os"
	"runtime"
	"sort"
	"strings"
	"sync"
	"testing"
	"time"

	"github.com/GoogleCloudPlatform/grpc-gcp-go/grpcgcp/multiendpoint"
	"google.golang.org/grpc"
	"google.golang.org/grpc/backoff"
	"google.golang.org/grpc/connectivity"
	"google.golang.org/grpc/credentials/insecure"
	"google.golang.org/grpc/metadata"
	"google.golang.org/grpc/test/bufconn"
	"google.golang.org/protobuf/types/known/emptypb"
)

type vgME struct {
	Name string   `json:"name"`
	Eps  []string `json:"eps"`
}

type vgStep struct {
	Op       string `json:"op"` // new | update | down | up | rpc | close
	Mes      []vgME `json:"mes"`
	Def      string `json:"def"`
	FailDial int    `json:"faildial"` // k-th dial of this operation fails (0 = none)
	E        string `json:"e"`
	Name     string `json:"name"`   // rpc: MultiEndpoint name in the context ("" = none)
	Stream   bool   `json:"stream"` // rpc: issued as a stream (NewStream) instead of a unary call (Invoke)
	N        int    `json:"n"`      // tick: virtual milliseconds
	// conc: RPCs and one reconfiguration run as goroutines, stepped gate to gate (gme.mu) in the order given by Sched
	Procs []vgStep `json:"procs"`
	Sched []int    `json:"sched"`
}

type vgScript struct {
	Id    string   `json:"id"`
	R     int      `json:"r"` // recovery timeout of every MultiEndpoint in virtual ms (0 = none)
	D     int      `json:"d"` // switching delay in virtual ms (0 = none); r or d > 0: virtual clock, advanced by "tick" only
	Steps []vgStep `json:"steps"`
}

type vgDial struct {
	E  string `json:"e"`
	Ok bool   `json:"ok"`
}

type vgConn struct {
	E    string `json:"e"`
	Shut bool   `json:"shut"`
}

type vgRoute struct {
	Name string `json:"name"`
	E    string `json:"e"`
}

type vgEvent struct {
	Sid      string    `json:"sid"`
	I        int       `json:"i"`
	Op       string    `json:"op"`
	Mes      []vgME    `json:"mes"`
	Def      string    `json:"def"`
	FailDial int       `json:"faildial"`
	E        string    `json:"e"`
	Name     string    `json:"name"`
	Stream   bool      `json:"stream"`
	N        int       `json:"n"`
	R        int       `json:"r"`
	D        int       `json:"d"`
	Res      string    `json:"res"`     // OK | ERR | PANIC | HANG | SKIPPED
	Srv      string    `json:"srv"`     // rpc: endpoint whose server answered
	Dials    []vgDial  `json:"dials"`   // dials made by this operation, in order
	Conns    []vgConn  `json:"conns"`   // every connection handed out so far: endpoint, Shutdown?
	Pools    []string  `json:"pools"`   // endpoints that have a pool (white-box), sorted
	Routes0  []vgRoute `json:"routes0"` // per MultiEndpoint: Current() right when the operation returned
	Routes   []vgRoute `json:"routes"`  // ... after the system settled
	Settled  bool      `json:"settled"`
	Gor      int       `json:"gor"` // goroutines above the baseline taken before construction (after settling)
	Msg      string    `json:"msg"`
	Sub      []vgEvent `json:"sub,omitempty"`
	Ivs      [][2]int  `json:"ivs,omitempty"`
	Locks    [][]vLk   `json:"locks,omitempty"`
	Exec     []int     `json:"exec,omitempty"`
	Drift    int       `json:"drift,omitempty"`
}

type vgServer struct {
	name string
	mu   sync.Mutex
	lis  *bufconn.Listener
	srv  *grpc.Server
	up   bool
}

func (s *vgServer) start() {
	s.mu.Lock()
	defer s.mu.Unlock()
	if s.up {
		return
	}
	s.lis = bufconn.Listen(1 << 16)
	name := s.name
	s.srv = grpc.NewServer(grpc.UnknownServiceHandler(func(srv interface{}, stream grpc.ServerStream) error {
		in := &emptypb.Empty{}
		if err := stream.RecvMsg(in); err != nil {
			return err
		}
		stream.SetHeader(metadata.Pairs("srv", name))
		return stream.SendMsg(&emptypb.Empty{})
	}))
	lis, srv := s.lis, s.srv
	go srv.Serve(lis)
	s.up = true
}

func (s *vgServer) stop() {
	s.mu.Lock()
	defer s.mu.Unlock()
	if !s.up {
		return
	}
	s.up = false
	s.srv.Stop()
	s.lis.Close()
}

func (s *vgServer) dial(ctx context.Context) (net.Conn, error) {
	s.mu.Lock()
	up, lis := s.up, s.lis
	s.mu.Unlock()
	if !up {
		return nil, errors.New("verif: endpoint is down")
	}
	return lis.DialContext(ctx)
}

// virtual clock of the MultiEndpoints (timed scripts): timers fire only when a "tick" input advances it
type vgTimer struct {
	c       *vgClock
	due     int64
	f       func()
	stopped bool
	fired   bool
}

func (t *vgTimer) Stop() bool {
	t.c.mu.Lock()
	defer t.c.mu.Unlock()
	was := !t.stopped && !t.fired
	t.stopped = true
	return was
}

type vgClock struct {
	mu     sync.Mutex
	now    int64
	timers []*vgTimer
}

func (c *vgClock) Now() time.Time {
	c.mu.Lock()
	defer c.mu.Unlock()
	return verifBase.Add(time.Duration(c.now) * time.Millisecond)
}

func (c *vgClock) After(d time.Duration, f func()) multiendpoint.VerifTimer {
	c.mu.Lock()
	defer c.mu.Unlock()
	t := &vgTimer{c: c, due: c.now + int64(d/time.Millisecond), f: f}
	c.timers = append(c.timers, t)
	return t
}

// advance moves the clock and runs every timer that becomes due, earliest first (creation order among equals),
// including timers created by the callbacks themselves.
func (c *vgClock) advance(n int64) {
	c.mu.Lock()
	target := c.now + n
	c.mu.Unlock()
	for {
		c.mu.Lock()
		var next *vgTimer
		for _, t := range c.timers {
			if t.stopped || t.fired || t.due > target {
				continue
			}
			if next == nil || t.due < next.due {
				next = t
			}
		}
		if next == nil {
			c.now = target
			c.mu.Unlock()
			return
		}
		if next.due > c.now {
			c.now = next.due
		}
		next.fired = true
		c.mu.Unlock()
		next.f()
	}
}

type vgHarness struct {
	clock    *vgClock
	r, d     int
	servers  map[string]*vgServer
	gme      *GCPMultiEndpoint
	mu       sync.Mutex
	conns    []*grpc.ClientConn
	connEp   []string
	dials    []vgDial
	dialN    int
	failDial int
	baseline int
	closed   bool
}

var vgEndpoints = []string{"a", "b", "c", "d"}

func newVGHarness() *vgHarness {
	h := &vgHarness{servers: map[string]*vgServer{}}
	for _, e := range vgEndpoints {
		s := &vgServer{name: e}
		s.start()
		h.servers[e] = s
	}
	return h
}

func (h *vgHarness) dialFunc(ctx context.Context, target string, dopts ...grpc.DialOption) (*grpc.ClientConn, error) {
	h.mu.Lock()
	h.dialN++
	fail := h.failDial != 0 && h.dialN == h.failDial
	h.mu.Unlock()
	if fail {
		h.mu.Lock()
		h.dials = append(h.dials, vgDial{E: target, Ok: false})
		h.mu.Unlock()
		return nil, errors.New("verif: dial failed")
	}
	srv := h.servers[target]
	opts := append([]grpc.DialOption{}, dopts...)
	opts = append(opts,
		grpc.WithTransportCredentials(insecure.NewCredentials()),
		grpc.WithContextDialer(func(ctx context.Context, _ string) (net.Conn, error) {
			if srv == nil {
				return nil, errors.New("verif: unknown endpoint")
			}
			return srv.dial(ctx)
		}),
		grpc.WithConnectParams(grpc.ConnectParams{
			Backoff:           backoff.Config{BaseDelay: 3 * time.Millisecond, Multiplier: 1.2, Jitter: 0, MaxDelay: 10 * time.Millisecond},
			MinConnectTimeout: 200 * time.Millisecond,
		}))
	cc, err := grpc.DialContext(ctx, "passthrough:///"+target, opts...)
	h.mu.Lock()
	h.dials = append(h.dials, vgDial{E: target, Ok: err == nil})
	if err == nil {
		h.conns = append(h.conns, cc)
		h.connEp = append(h.connEp, target)
	}
	h.mu.Unlock()
	return cc, err
}

func (h *vgHarness) opts(st vgStep) *GCPMultiEndpointOptions {
	o := &GCPMultiEndpointOptions{
		GRPCgcpConfig:  vApiConfig(vCfg{Min: 1, Max: 2, Wm: 100}),
		MultiEndpoints: map[string]*multiendpoint.MultiEndpointOptions{},
		Default:        st.Def,
		DialFunc:       h.dialFunc,
	}
	for _, m := range st.Mes {
		o.MultiEndpoints[m.Name] = &multiendpoint.MultiEndpointOptions{Endpoints: append([]string{}, m.Eps...),
			RecoveryTimeout: time.Duration(h.r) * time.Millisecond, SwitchingDelay: time.Duration(h.d) * time.Millisecond}
	}
	return o
}

func (h *vgHarness) routes() []vgRoute {
	r := []vgRoute{}
	if h.gme == nil {
		return r
	}
	defer func() { recover() }()
	h.gme.mu.RLock()
	names := make([]string, 0, len(h.gme.mes))
	for n := range h.gme.mes {
		names = append(names, n)
	}
	h.gme.mu.RUnlock()
	sort.Strings(names)
	for _, n := range names {
		h.gme.mu.RLock()
		me := h.gme.mes[n]
		h.gme.mu.RUnlock()
		if me != nil {
			r = append(r, vgRoute{Name: n, E: me.Current()})
		}
	}
	return r
}

func (h *vgHarness) pools() []string {
	p := []string{}
	if h.gme == nil {
		return p
	}
	h.gme.mu.RLock()
	for e := range h.gme.pools {
		p = append(p, e)
	}
	h.gme.mu.RUnlock()
	sort.Strings(p)
	return p
}

func (h *vgHarness) connList() []vgConn {
	h.mu.Lock()
	defer h.mu.Unlock()
	l := []vgConn{}
	for i, c := range h.conns {
		l = append(l, vgConn{E: h.connEp[i], Shut: c.GetState() == connectivity.Shutdown})
	}
	return l
}

// settle waits until every open pool connection has reached the state its endpoint allows (READY
// when the endpoint is up, not READY when it is down) and the routes did not change for a while.
func (h *vgHarness) settle() bool {
	deadline := time.Now().Add(3 * time.Second)
	stableSince := time.Time{}
	last := ""
	for time.Now().Before(deadline) {
		ok := true
		h.mu.Lock()
		for i, c := range h.conns {
			st := c.GetState()
			if st == connectivity.Shutdown {
				continue
			}
			s := h.servers[h.connEp[i]]
			s.mu.Lock()
			up := s.up
			s.mu.Unlock()
			if up != (st == connectivity.Ready) {
				ok = false
			}
		}
		h.mu.Unlock()
		cur := fmt.Sprint(h.routes())
		if ok && cur == last {
			if stableSince.IsZero() {
				stableSince = time.Now()
			}
			if time.Since(stableSince) > 15*time.Millisecond {
				return true
			}
		} else {
			stableSince = time.Time{}
		}
		last = cur
		time.Sleep(time.Millisecond)
	}
	return false
}

// vgCall issues one RPC through the GCPMultiEndpoint, unary (Invoke) or as a bidirectional stream (NewStream), and
// returns the name of the server that answered (header "srv").
func vgCall(g *GCPMultiEndpoint, ctx context.Context, stream bool) (string, error) {
	var md metadata.MD
	if !stream {
		if err := g.Invoke(ctx, "/v/Echo", &emptypb.Empty{}, &emptypb.Empty{}, grpc.Header(&md)); err != nil {
			return "", err
		}
	} else {
		cs, err := g.NewStream(ctx, &grpc.StreamDesc{StreamName: "Echo", ClientStreams: true, ServerStreams: true}, "/v/Echo")
		if err != nil {
			return "", err
		}
		if err := cs.SendMsg(&emptypb.Empty{}); err != nil {
			return "", err
		}
		if err := cs.CloseSend(); err != nil {
			return "", err
		}
		if md, err = cs.Header(); err != nil {
			return "", err
		}
		if err := cs.RecvMsg(&emptypb.Empty{}); err != nil {
			return "", err
		}
	}
	if v := md.Get("srv"); len(v) > 0 {
		return v[0], nil
	}
	return "", nil
}

func vgGuard(f func() string) (res, msg string) {
	done := make(chan struct{})
	go func() {
		defer close(done)
		defer func() {
			if p := recover(); p != nil {
				buf := make([]byte, 2048)
				n := runtime.Stack(buf, false)
				res, msg = "PANIC", fmt.Sprint(p)+" | "+vCompact(string(buf[:n]))
			}
		}()
		res = f()
	}()
	select {
	case <-done:
	case <-time.After(10 * time.Second):
		return "HANG", "operation did not return within 10s"
	}
	return
}

func (h *vgHarness) goroutinesAboveBaseline() int {
	n := 0
	for k := 0; k < 60; k++ {
		n = runtime.NumGoroutine() - h.baseline
		if n <= 0 {
			return n
		}
		time.Sleep(5 * time.Millisecond)
	}
	return n
}

func (h *vgHarness) exec(i int, st vgStep) vgEvent {
	ev := vgEvent{I: i, Op: st.Op, Mes: st.Mes, Def: st.Def, FailDial: st.FailDial, E: st.E, Name: st.Name, Stream: st.Stream, N: st.N, R: h.r, D: h.d, Res: "OK"}
	if ev.Mes == nil {
		ev.Mes = []vgME{}
	}
	h.mu.Lock()
	h.dials = nil
	h.dialN = 0
	h.failDial = st.FailDial
	h.mu.Unlock()
	switch st.Op {
	case "new":
		if h.gme != nil {
			ev.Res = "SKIPPED"
			break
		}
		ev.Res, ev.Msg = vgGuard(func() string {
			g, err := NewGCPMultiEndpoint(h.opts(st))
			if err != nil {
				return "ERR"
			}
			h.gme = g
			return "OK"
		})
	case "update":
		if h.gme == nil || h.closed {
			ev.Res = "SKIPPED"
			break
		}
		ev.Res, ev.Msg = vgGuard(func() string {
			if err := h.gme.UpdateMultiEndpoints(h.opts(st)); err != nil {
				return "ERR"
			}
			return "OK"
		})
	case "down":
		h.servers[st.E].stop()
	case "up":
		h.servers[st.E].start()
	case "sever":
		// the application closes the connection it handed out through DialFunc for this endpoint itself
		var cc *grpc.ClientConn
		h.mu.Lock()
		for k := len(h.conns) - 1; k >= 0; k-- {
			if h.connEp[k] == st.E && h.conns[k].GetState() != connectivity.Shutdown {
				cc = h.conns[k]
				break
			}
		}
		h.mu.Unlock()
		if h.gme == nil || h.closed || cc == nil {
			ev.Res = "SKIPPED"
			break
		}
		ev.Res, ev.Msg = vgGuard(func() string {
			cc.Close()
			return "OK"
		})
	case "rpc":
		if h.gme == nil || h.closed {
			ev.Res = "SKIPPED"
			break
		}
		ev.Res, ev.Msg = vgGuard(func() string {
			ctx, cancel := context.WithTimeout(context.Background(), 300*time.Millisecond)
			defer cancel()
			if st.Name != "" {
				ctx = NewMEContext(ctx, st.Name)
			}
			srv, err := vgCall(h.gme, ctx, st.Stream)
			if err != nil {
				ev.Msg = err.Error()
				return "ERR"
			}
			ev.Srv = srv
			return "OK"
		})
	case "conc":
		if h.gme == nil || h.closed {
			ev.Res = "SKIPPED"
			break
		}
		h.execConc(st, &ev)
	case "tick":
		if h.gme == nil || h.closed {
			ev.Res = "SKIPPED"
			break
		}
		if h.clock != nil {
			ev.Res, ev.Msg = vgGuard(func() string {
				h.clock.advance(int64(st.N))
				return "OK"
			})
		}
	case "close":
		if h.gme == nil || h.closed {
			ev.Res = "SKIPPED"
			break
		}
		ev.Res, ev.Msg = vgGuard(func() string {
			h.gme.Close()
			return "OK"
		})
		h.closed = true
	default:
		ev.Res = "SKIPPED"
	}
	h.mu.Lock()
	ev.Dials = append([]vgDial{}, h.dials...)
	h.mu.Unlock()
	ev.Routes0 = h.routes()
	if ev.Res != "HANG" && !h.closed && h.gme != nil {
		ev.Settled = h.settle()
	} else {
		ev.Settled = true
	}
	ev.Routes = h.routes()
	ev.Pools = h.pools()
	ev.Conns = h.connList()
	if st.Op == "close" || (st.Op == "new" && ev.Res != "OK") || (st.Op == "conc" && h.closed) {
		ev.Gor = h.goroutinesAboveBaseline()
	}
	return ev
}

func vgRunScript(sc vgScript, emit func(vgEvent)) {
	h := newVGHarness()
	h.r, h.d = sc.R, sc.D
	if sc.R > 0 || sc.D > 0 {
		h.clock = &vgClock{}
		restore := multiendpoint.VerifSetClock(h.clock.Now, h.clock.After)
		defer restore()
	}
	time.Sleep(2 * time.Millisecond)
	h.baseline = runtime.NumGoroutine()
	emit(vgEvent{Sid: sc.Id, Op: "reset", R: sc.R, D: sc.D, Res: "OK", Mes: []vgME{}, Dials: []vgDial{}, Conns: []vgConn{}, Pools: []string{}, Routes0: []vgRoute{}, Routes: []vgRoute{}, Settled: true})
	for i, st := range sc.Steps {
		ev := h.exec(i+1, st)
		ev.Sid = sc.Id
		emit(ev)
		if ev.Res == "HANG" || !ev.Settled {
			break // an unsettled system makes the rest of the script meaningless (and slow)
		}
	}
	// release everything
	if h.gme != nil && !h.closed {
		vgGuard(func() string { h.gme.Close(); return "OK" })
	}
	h.mu.Lock()
	for _, c := range h.conns {
		c.Close()
	}
	h.mu.Unlock()
	for _, s := range h.servers {
		s.stop()
	}
}

func TestVerifGME(t *testing.T) {
	in, out := os.Getenv("VERIF_IN"), os.Getenv("VERIF_OUT")
	if in == "" || out == "" {
		t.Skip("VERIF_IN/VERIF_OUT not set")
	}
	fi, err := os.Open(in)
	if err != nil {
		t.Fatal(err)
	}
	defer fi.Close()
	fo, err := os.Create(out)
	if err != nil {
		t.Fatal(err)
	}
	defer fo.Close()
	bw := bufio.NewWriterSize(fo, 1<<20)
	defer bw.Flush()
	enc := json.NewEncoder(bw)
	rd := bufio.NewReaderSize(fi, 1<<20)
	ns, ne := 0, 0
	if os.Getenv("VERIF_JITTER") != "" {
		// binary built with the yield rewrite: sleep at random in front of lock acquisitions (monitor vs reports vs updates)
		var jmu sync.Mutex
		jr := rand.New(rand.NewSource(7))
		verifYieldFn = func(site string) {
			jmu.Lock()
			x := jr.Intn(100)
			jmu.Unlock()
			if x < 50 {
				time.Sleep(time.Duration(50+x*20) * time.Microsecond)
			}
		}
		defer func() { verifYieldFn = nil }()
	}
	for {
		line, err := rd.ReadBytes('\n')
		if len(strings.TrimSpace(string(line))) > 0 {
			var sc vgScript
			if e := json.Unmarshal(line, &sc); e != nil {
				t.Fatalf("bad script: %v", e)
			}
			vgRunScript(sc, func(ev vgEvent) {
				ne++
				if ev.Dials == nil {
					ev.Dials = []vgDial{}
				}
				if e := enc.Encode(ev); e != nil {
					t.Fatal(e)
				}
			})
			ns++
		}
		if err != nil {
			break
		}
	}
	fmt.Printf("VERIF-GME scripts=%d events=%d\n", ns, ne)
}

// execConc: a concurrent section of a GCPMultiEndpoint script. Operations: rpc (Invoke) and update. Gates: the
// acquisitions and releases of gme.mu in the rewritten gcp_multiendpoint.go (binary built with the gate rewrite);
// monitor goroutines are not part of the section and pass the gates freely.
func (h *vgHarness) execConc(st vgStep, ev *vgEvent) {
	c := &vConc{byGid: map[string]*vProc{}, name: func(l interface{}) string {
		if m, ok := l.(*sync.RWMutex); ok && h.gme != nil && m == &h.gme.mu {
			return "gme"
		}
		return fmt.Sprintf("x%p", l)
	}}
	subs := make([]vgEvent, len(st.Procs))
	for k, ps := range st.Procs {
		ps := ps
		k := k
		subs[k] = vgEvent{I: ev.I, Op: ps.Op, Mes: ps.Mes, Def: ps.Def, FailDial: ps.FailDial, E: ps.E, Name: ps.Name, Stream: ps.Stream, R: h.r, D: h.d, Res: "OK"}
		if subs[k].Mes == nil {
			subs[k].Mes = []vgME{}
		}
		p := &vProc{idx: k + 1, reg: make(chan struct{}), at: make(chan string, 1), rel: make(chan struct{})}
		switch ps.Op {
		case "rpc":
			p.fn = func() vRes {
				ctx, cancel := context.WithTimeout(context.Background(), 5*time.Second)
				defer cancel()
				if ps.Name != "" {
					ctx = NewMEContext(ctx, ps.Name)
				}
				srv, err := vgCall(h.gme, ctx, ps.Stream)
				if err != nil {
					return vRes{res: "ERR", msg: err.Error()}
				}
				return vRes{res: "OK", msg: srv}
			}
		case "close":
			p.fn = func() vRes {
				h.gme.Close()
				return vRes{res: "OK"}
			}
		case "update":
			p.fn = func() vRes {
				h.mu.Lock()
				h.dials = nil
				h.dialN = 0
				h.failDial = ps.FailDial
				h.mu.Unlock()
				if err := h.gme.UpdateMultiEndpoints(h.opts(ps)); err != nil {
					return vRes{res: "ERR"}
				}
				return vRes{res: "OK"}
			}
		}
		if p.fn == nil {
			subs[k].Res = "SKIPPED"
			p.state = "done"
		}
		c.procs = append(c.procs, p)
	}
	hung := c.run(st.Sched)
	c.refresh()
	for k, p := range c.procs {
		sub := subs[k]
		switch {
		case p.fn == nil:
		case p.state == "done":
			sub.Res = p.run.out.res
			if st.Procs[k].Op == "rpc" && sub.Res == "OK" {
				sub.Srv = p.run.out.msg
			} else {
				sub.Msg = p.run.out.msg
			}
			if st.Procs[k].Op == "update" {
				h.mu.Lock()
				sub.Dials = append([]vgDial{}, h.dials...)
				h.mu.Unlock()
			}
		case p.state == "lockwait":
			sub.Res, sub.Msg = "HANG", p.lockWait
		default:
			sub.Res, sub.Msg = "HANG", "still running at the end of the section: "+p.lockWait
		}
		if p.end == 0 {
			c.clock++
			p.end = c.clock
		}
		if sub.Dials == nil {
			sub.Dials = []vgDial{}
		}
		ev.Sub = append(ev.Sub, sub)
		ev.Ivs = append(ev.Ivs, [2]int{p.start, p.end})
		lk := p.lks
		if lk == nil {
			lk = []vLk{}
		}
		ev.Locks = append(ev.Locks, lk)
	}
	ev.Exec, ev.Drift = c.exec, c.drift
	if hung {
		ev.Res = "HANG"
	}
	for k := range st.Procs {
		if st.Procs[k].Op == "close" && c.procs[k].state == "done" {
			h.closed = true
		}
	}
}
