//go:build verif

package grpcgcp

// Adaptive random driver for the pool: chooses the next input from the actual state of the run
// (connections created so far, open calls, published pickers, blocked picks), with the kind of input
// chosen first (weighted) and its parameters second. It produces the same trace events as the script
// harness; the trace is judged by TLC against specs/PoolGhost.tla.

import (
	"bufio"
	"encoding/json"
	"fmt"
	"math/rand"
	"os"
	"strconv"
	"sync/atomic"
	"testing"
)

type vRandJob struct {
	Id      string `json:"id"`
	Cfg     vCfg   `json:"cfg"`
	Seed    int64  `json:"seed"`
	Steps   int    `json:"steps"`
	Profile string `json:"profile"` // mixed | refresh | affinity | load | faults | rr
}

type vRandDriver struct {
	h        *vHarness
	r        *rand.Rand
	job      vRandJob
	st       map[int]string // last state reported per connection
	open     []int          // open call numbers
	callDl   map[int]int    // call -> absolute deadline tick (0 none)
	callM    map[int]string
	callKeys map[int][]int
	keys     []int // keys that were (probably) bound
	unbound  []int // keys that were (probably) unbound again
	blocked  []int // event indices of blocked picks
	i        int
	failing  bool
}

func (d *vRandDriver) pickW(ws []int) int {
	t := 0
	for _, w := range ws {
		t += w
	}
	x := d.r.Intn(t)
	for i, w := range ws {
		if x < w {
			return i
		}
		x -= w
	}
	return len(ws) - 1
}

func (d *vRandDriver) nextState(cur string) string {
	if d.r.Intn(100) < 8 {
		return []string{"IDLE", "CONNECTING", "READY", "TF", "SHUTDOWN", "READY", "TF"}[d.r.Intn(7)]
	}
	switch cur {
	case "", "IDLE":
		return []string{"CONNECTING", "CONNECTING", "READY"}[d.r.Intn(3)]
	case "CONNECTING":
		return []string{"READY", "READY", "READY", "TF"}[d.r.Intn(4)]
	case "READY":
		return []string{"IDLE", "TF", "TF", "CONNECTING"}[d.r.Intn(4)]
	case "TF":
		return []string{"CONNECTING", "IDLE", "READY", "READY"}[d.r.Intn(4)]
	}
	return "READY"
}

func (d *vRandDriver) step(emit func(vEvent)) bool {
	h := d.h
	prof := d.job.Profile
	// weights: resolve, state, pick, done, advance, factory, await/cancel
	w := []int{3, 26, 36, 24, 6, 1, 4}
	switch prof {
	case "refresh":
		w = []int{2, 16, 34, 32, 12, 1, 3}
	case "affinity":
		w = []int{2, 22, 42, 28, 3, 0, 3}
	case "load":
		w = []int{1, 10, 50, 36, 2, 0, 1}
	case "faults":
		w = []int{10, 26, 28, 18, 4, 8, 6}
	case "rr":
		w = []int{2, 26, 38, 20, 5, 0, 9}
	}
	nconn := len(h.fcc.conns)
	if nconn == 0 {
		w[1], w[2], w[3] = 1, 0, 0
		w[0] += 30
	}
	if len(h.fcc.pubs) == 0 {
		w[2] = 0
	}
	if len(d.open) == 0 {
		w[3] = 0
	}
	if len(d.blocked) == 0 {
		w[6] = 0
	}
	var st vStep
	switch d.pickW(w) {
	case 0:
		st = vStep{Op: "resolve", Av: 1 + d.r.Intn(2), Cfgk: "first"}
		if prof == "faults" && d.r.Intn(4) == 0 {
			st.Av = 0
		}
		if d.r.Intn(10) == 0 {
			st.Cfgk = "other"
		}
	case 1:
		c := 0 // no connection exists (yet): a report about an unknown one
		if nconn > 0 {
			c = 1 + d.r.Intn(nconn)
		}
		if d.r.Intn(3) > 0 && nconn > 1 { // prefer recent connections
			c = nconn - d.r.Intn(minInt(nconn, 3))
		}
		if d.r.Intn(60) == 0 {
			c = 0
		}
		s := d.nextState(d.st[c])
		if prof != "faults" && prof != "mixed" && s == "SHUTDOWN" {
			s = "TF"
		}
		st = vStep{Op: "state", C: c, S: s}
		d.st[c] = s
	case 2:
		pk := -1
		if np := len(h.fcc.pubs); np > 1 && d.r.Intn(100) < 15 {
			pk = np - 1 - d.r.Intn(minInt(np-1, 3))
		}
		m := []string{"PLAIN", "BIND", "BOUND", "UNBIND", "NOAFF", "BOUND2"}[d.pickW([]int{35, 22, 30, 9, 2, 2})]
		if prof == "affinity" {
			m = []string{"PLAIN", "BIND", "BOUND", "UNBIND", "BOUND2"}[d.pickW([]int{15, 25, 38, 18, 4})]
		}
		if prof == "load" {
			m = []string{"PLAIN", "BIND", "BOUND"}[d.pickW([]int{80, 10, 10})]
		}
		if prof == "rr" {
			m = []string{"PLAIN", "BIND", "BOUND"}[d.pickW([]int{25, 55, 20})]
		}
		st = vStep{Op: "pick", Pk: pk, M: m}
		if m == "BOUND" || m == "UNBIND" || m == "BOUND2" {
			k := 1 + d.r.Intn(4)
			if len(d.keys) > 0 && d.r.Intn(100) < 80 {
				k = d.keys[d.r.Intn(len(d.keys))]
			}
			st.Keys = []int{k}
			if d.r.Intn(12) == 0 {
				st.Keys = append(st.Keys, 1+d.r.Intn(4))
			}
			if prof == "faults" && d.r.Intn(10) == 0 {
				st.Keys = []int{}
			}
			if prof == "faults" && d.r.Intn(15) == 0 {
				st.Shape = "nil"
			}
			if prof == "faults" && d.r.Intn(25) == 0 {
				st.Shape = "embnil"
			}
		}
		if d.r.Intn(50) == 0 {
			st.NoCtx = true
		}
		if d.job.Cfg.Uc > 0 || prof == "rr" {
			if d.r.Intn(100) < 55 {
				st.Dl = 1 + d.r.Intn(3)
			}
		}
	case 3:
		n := d.open[d.r.Intn(len(d.open))]
		out := []string{"OK", "ERR", "CDE", "SDE"}[d.pickW([]int{55, 12, 25, 8})]
		if d.job.Cfg.Uc == 0 {
			out = []string{"OK", "ERR", "CDE"}[d.pickW([]int{75, 20, 5})]
		}
		if d.callM[n] == "UNBIND" && d.r.Intn(100) < 70 {
			out = "OK"
		}
		st = vStep{Op: "done", N: n, Out: out}
		if d.callM[n] == "BIND" && out == "OK" {
			k := 1 + d.r.Intn(4)
			if len(d.unbound) > 0 && d.r.Intn(100) < 60 {
				k = d.unbound[d.r.Intn(len(d.unbound))] // bind a key again after it was unbound
			}
			st.Rkeys = []int{k}
			if d.r.Intn(8) == 0 {
				st.Rkeys = append(st.Rkeys, 1+d.r.Intn(4))
			}
			if d.r.Intn(10) == 0 {
				st.Rkeys = []int{}
			}
		}
	case 4:
		st = vStep{Op: "advance", D: 1 + d.r.Intn(5)}
		if d.job.Cfg.Ums > 0 && d.r.Intn(3) == 0 {
			st.D = d.job.Cfg.Ums*(1+d.r.Intn(3)) + d.r.Intn(2)
		}
	case 5:
		d.failing = !d.failing
		st = vStep{Op: "factory", Fail: d.failing}
		if d.failing && d.r.Intn(2) == 0 {
			st.After = 1 + d.r.Intn(2)
		}
	case 6:
		of := d.blocked[d.r.Intn(len(d.blocked))]
		st = vStep{Op: "await", Of: of}
		if d.r.Intn(3) == 0 {
			st.Op = "cancel"
		}
	}
	return d.exec(st, emit)
}

func minInt(a, b int) int {
	if a < b {
		return a
	}
	return b
}

func (d *vRandDriver) note(ev vEvent) {
	if ev.Res == "SC" && ev.RN > 0 {
		d.open = append(d.open, ev.RN)
		d.callDl[ev.RN] = ev.Dl
		d.callM[ev.RN] = ev.M
		d.callKeys[ev.RN] = ev.Keys
	}
	if ev.Op == "pick" && ev.Res == "BLOCKED" {
		d.blocked = append(d.blocked, ev.I)
	}
	if (ev.Op == "await" || ev.Op == "cancel") && ev.Res != "BLOCKED" {
		nb := d.blocked[:0]
		for _, b := range d.blocked {
			if b != ev.Of {
				nb = append(nb, b)
			}
		}
		d.blocked = nb
	}
	if ev.Op == "done" && ev.Res != "SKIPPED" {
		no := d.open[:0]
		for _, n := range d.open {
			if n != ev.N {
				no = append(no, n)
			}
		}
		d.open = no
		if ev.Out == "OK" {
			for _, k := range ev.Rkeys {
				d.keys = append(d.keys, k)
			}
			if d.callM[ev.N] == "UNBIND" && len(d.callKeys[ev.N]) > 0 {
				d.unbound = append(d.unbound, d.callKeys[ev.N][0])
			}
		}
	}
}

func (d *vRandDriver) exec(st vStep, emit func(vEvent)) bool {
	d.i++
	ev := d.h.exec(d.i, st)
	ev.Sid = d.job.Id
	vNormEvent(&ev)
	emit(ev)
	d.note(ev)
	for _, ae := range d.h.autoDeliver(ev) {
		ae.Sid = d.job.Id
		vNormEvent(&ae)
		emit(ae)
		d.note(ae)
	}
	return !d.h.dead
}

func vNormEvent(ev *vEvent) {
	if ev.T == 0 {
		ev.T = int(verifGetTicks())
	}
	if ev.Keys == nil {
		ev.Keys = []int{}
	}
	if ev.Rkeys == nil {
		ev.Rkeys = []int{}
	}
	if ev.CC == nil {
		ev.CC = []vCC{}
	}
	if ev.WB.Streams == nil {
		ev.WB.Streams = []int{}
	}
	if ev.WB.Aff == nil {
		ev.WB.Aff = []int{}
	}
	if ev.WB.Meths == nil {
		ev.WB.Meths = []string{}
	}
}

func vRunRandom(job vRandJob, emit func(vEvent)) {
	verifSetTicks(0)
	h := newVHarness(job.Cfg)
	d := &vRandDriver{h: h, r: rand.New(rand.NewSource(job.Seed)), job: job, st: map[int]string{}, callDl: map[int]int{}, callM: map[int]string{}, callKeys: map[int][]int{}}
	rst := vEvent{Sid: job.Id, Op: "reset", Cfg: job.Cfg, Res: "OK", Probe: "-"}
	vNormEvent(&rst)
	emit(rst)
	alive := d.exec(vStep{Op: "resolve", Av: 1, Cfgk: "first"}, emit)
	for k := 0; alive && k < job.Steps; k++ {
		alive = d.step(emit)
	}
	// epilogue: complete everything, then probe placements (a leaked or lost stream count shows here)
	if alive {
		for alive && len(d.open) > 0 {
			alive = d.exec(vStep{Op: "done", N: d.open[0], Out: "OK"}, emit)
		}
		for k := 0; alive && k < 4; k++ {
			alive = d.exec(vStep{Op: "pick", Pk: -1, M: "PLAIN"}, emit)
		}
	}
	same := h.finish()
	res := "OK"
	if !same {
		res = "CFGMUTATED"
	} else if h.aliased() {
		res = "CFGALIASED"
	}
	end := vEvent{Sid: job.Id, Op: "end", Res: res, Probe: "-"}
	vNormEvent(&end)
	emit(end)
}

func TestVerifPoolRandom(t *testing.T) {
	in, out := os.Getenv("VERIF_IN"), os.Getenv("VERIF_OUT")
	if in == "" || out == "" {
		t.Skip("VERIF_IN/VERIF_OUT not set")
	}
	if w := os.Getenv("VERIF_WATCHDOG_MS"); w != "" {
		if n, err := strconv.Atoi(w); err == nil {
			_ = n
		}
	}
	fi, err := os.Open(in)
	if err != nil {
		t.Fatal(err)
	}
	defer fi.Close()
	fo, err := os.Create(out)
	if err != nil {
		t.Fatal(err)
	}
	defer fo.Close()
	bw := bufio.NewWriterSize(fo, 1<<20)
	defer bw.Flush()
	enc := json.NewEncoder(bw)
	sc := bufio.NewScanner(fi)
	sc.Buffer(make([]byte, 1<<20), 1<<24)
	nj, ne := 0, 0
	for sc.Scan() {
		line := sc.Bytes()
		if len(line) == 0 {
			continue
		}
		var job vRandJob
		if e := json.Unmarshal(line, &job); e != nil {
			t.Fatalf("bad job: %v", e)
		}
		if atomic.LoadInt32(&vAnomalies) >= 25 {
			continue // see vAnomalies: enough HANG / SPIN / TIMEOUT outcomes recorded
		}
		vRunRandom(job, func(ev vEvent) {
			ne++
			if e := enc.Encode(ev); e != nil {
				t.Fatal(e)
			}
		})
		nj++
	}
	fmt.Printf("VERIF-POOLRAND jobs=%d events=%d\n", nj, ne)
}
