//go:build verif

package grpcgcp

// Injected by /verif through `go test -overlay` (never part of /repo).
// Virtual clock used by the line-preserving rewritten copies of gcp_balancer.go / gcp_picker.go
// (time.Now() -> verifNow()).

import (
	"sync/atomic"
	"time"
)

var verifBase = time.Date(2030, 1, 1, 0, 0, 0, 0, time.UTC)

// virtual ticks (1 tick = 1ms of virtual time)
var verifTicks int64

func verifNow() time.Time {
	return verifBase.Add(time.Duration(atomic.LoadInt64(&verifTicks)) * time.Millisecond)
}

func verifSince(t time.Time) time.Duration { return verifNow().Sub(t) }
func verifUntil(t time.Time) time.Duration { return t.Sub(verifNow()) }

func verifSetTicks(n int64) { atomic.StoreInt64(&verifTicks, n) }
func verifAddTicks(n int64) { atomic.AddInt64(&verifTicks, n) }
func verifGetTicks() int64  { return atomic.LoadInt64(&verifTicks) }

// verifYield is inserted in front of lock acquisitions by the optional gate rewrite.
var verifYieldFn func(site string)

func verifYield(site string) {
	if f := verifYieldFn; f != nil {
		f(site)
	}
}

// verifLock / verifUnlock are inserted by the gate rewrite: verifLock in front of every Lock/RLock statement, verifUnlock
// right after every Unlock/RUnlock (l = address of the mutex expression, kind = "W" | "R"). Without installed hooks both
// degrade to verifYield (the jitter drivers).
var verifLockFn func(site string, l interface{}, kind string)
var verifUnlockFn func(site string, l interface{}, kind string)

func verifLock(site string, l interface{}, kind string) {
	if f := verifLockFn; f != nil {
		f(site, l, kind)
		return
	}
	verifYield(site)
}

func verifUnlock(site string, l interface{}, kind string) {
	if f := verifUnlockFn; f != nil {
		f(site, l, kind)
		return
	}
	verifYield(site)
}
