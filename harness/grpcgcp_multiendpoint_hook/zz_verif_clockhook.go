//go:build verif

package multiendpoint

// Injected by /verif through `go test -overlay` (never part of /repo): lets the GCPMultiEndpoint harness of
// package grpcgcp run the MultiEndpoints it creates on a virtual clock, through the package's own
// timeNow / timeAfterFunc variables (the ones multiendpoint_test.go redefines).

import "time"

type VerifTimer interface{ Stop() bool }

type verifTimerAdapter struct{ t VerifTimer }

func (v verifTimerAdapter) Reset(time.Duration) bool { return false }
func (v verifTimerAdapter) Stop() bool               { return v.t.Stop() }

// VerifSetClock replaces the clock and returns a function that restores the previous one.
func VerifSetClock(now func() time.Time, after func(d time.Duration, f func()) VerifTimer) (restore func()) {
	oldNow, oldAfter := timeNow, timeAfterFunc
	timeNow = now
	timeAfterFunc = func(d time.Duration, f func()) timerAlike { return verifTimerAdapter{after(d, f)} }
	return func() { timeNow, timeAfterFunc = oldNow, oldAfter }
}
