//go:build verif

package prober

// C18 harness (package prober): runs backoff, parseT4T7Latency, the resource-name builders,
// probeInterval and generatePayload on the vectors enumerated by TLC from specs/Prober.tla and echoes
// each vector with the observed result.

import (
	"bufio"
	"bytes"
	"crypto/sha256"
	"encoding/json"
	"fmt"
	"math"
	"math/rand"
	"os"
	"strconv"
	"strings"
	"testing"
	"time"

	"google.golang.org/grpc/metadata"
	"sync"
	"sync/atomic"
)

func vpStrs(x interface{}) []string {
	o := []string{}
	if l, ok := x.([]interface{}); ok {
		for _, e := range l {
			s, _ := e.(string)
			o = append(o, s)
		}
	}
	return o
}

func vpEntry(c string) string {
	switch c {
	case "good":
		return "gfet4t7; dur=123"
	case "good2":
		return "gfet4t7; dur=7"
	case "neg":
		return "gfet4t7; dur=-5"
	case "bad":
		return "gfet4t7; dur=12x"
	case "short":
		return "gfet4t7"
	case "short2":
		return "gfet4t7; dur"
	case "alike":
		return "gfet4t7-backend; dur=999"
	case "empty":
		return ""
	case "prefixonly":
		return "gfet4t7; dur="
	case "spaces":
		return "gfet4t7; dur= 12"
	}
	return "cfr; dur=5"
}

func vpMD(classes []string) metadata.MD {
	md := metadata.MD{}
	for _, c := range classes {
		md.Append("server-timing", vpEntry(c))
	}
	return md
}

func VpQps(class string) float64 {
	switch class {
	case "zero":
		return 0
	case "neg":
		return -1
	case "tiny":
		return 1e-10
	case "nan":
		return math.NaN()
	case "edge":
		// 1s/qps is exactly 2^63 ns: the first interval that does not fit a time.Duration
		return 1e9 / 9223372036854775808.0
	case "denorm":
		return 5e-324
	case "pinf":
		return math.Inf(1)
	case "ninf":
		return math.Inf(-1)
	case "nano":
		return 2e-9
	case "small":
		return 0.001
	case "half":
		return 0.5
	case "one":
		return 1
	case "max":
		return 1000
	}
	return 1000.5
}

func TestVerifProber(t *testing.T) {
	in, out := os.Getenv("VERIF_IN"), os.Getenv("VERIF_OUT")
	if in == "" || out == "" {
		t.Skip("VERIF_IN/VERIF_OUT not set")
	}
	seed, _ := strconv.ParseInt(os.Getenv("VERIF_SEED"), 10, 64)
	nsweep, _ := strconv.Atoi(os.Getenv("VERIF_N"))
	fi, err := os.Open(in)
	if err != nil {
		t.Fatal(err)
	}
	defer fi.Close()
	fo, err := os.Create(out)
	if err != nil {
		t.Fatal(err)
	}
	defer fo.Close()
	bw := bufio.NewWriterSize(fo, 1<<20)
	defer bw.Flush()
	enc := json.NewEncoder(bw)
	sc := bufio.NewScanner(fi)
	sc.Buffer(make([]byte, 1<<20), 1<<24)
	id := 0
	for sc.Scan() {
		if len(sc.Bytes()) == 0 {
			continue
		}
		var v map[string]interface{}
		if e := json.Unmarshal(sc.Bytes(), &v); e != nil {
			t.Fatalf("bad vector: %v", e)
		}
		v["id"] = id
		id++
		v["panic"] = false
		func() {
			defer func() {
				if p := recover(); p != nil {
					v["panic"] = true
					v["pmsg"] = fmt.Sprint(p)
				}
			}()
			switch v["kind"] {
			case "backoff":
				b, m, n := int(v["base"].(float64)), int(v["max"].(float64)), int(v["n"].(float64))
				v["res"] = int(backoff(time.Duration(b), time.Duration(m), n))
			case "timing":
				v["rok"], v["ms"] = false, 0
				d, err := parseT4T7Latency(vpMD(vpStrs(v["hdr"])), vpMD(vpStrs(v["trl"])))
				if err == nil {
					v["rok"], v["ms"] = true, int(d/time.Millisecond)
				}
			case "flags":
				o := ProberOptions{Project: strings.Join(vpStrs(v["project"]), ""), Instance: strings.Join(vpStrs(v["instance"]), ""),
					Database: strings.Join(vpStrs(v["database"]), ""), InstanceConfig: strings.Join(vpStrs(v["icfg"]), "")}
				v["sproject"], v["sinstance"], v["sdatabase"], v["sicfg"] = o.Project, o.Instance, o.Database, o.InstanceConfig
				v["isegs"] = strings.Split(o.instanceURI(), "/")
				v["dsegs"] = strings.Split(o.databaseURI(), "/")
				v["csegs"] = strings.Split(o.instanceConfigURI(), "/")
				q, _ := v["qps"].(string)
				p := &Prober{qps: VpQps(q)}
				v["ipos"] = false
				if p.qps > 0 {
					v["ipos"] = p.probeInterval() > 0
				}
				pt, _ := v["ptype"].(string)
				_, perr := ParseProbeType(pt)
				v["typeok"] = perr == nil
			case "hash":
				size := int(v["size"].(float64))
				payload, h, err := generatePayload(size)
				sum := sha256.Sum256(payload)
				ok := err == nil && len(payload) == size && bytes.Equal(h, sum[:])
				// probes run concurrently (Prober.Start starts one goroutine per tick): the same must hold for payloads
				// generated at the same time
				var wg sync.WaitGroup
				var bad int32
				for w := 0; w < 8; w++ {
					wg.Add(1)
					go func() {
						defer wg.Done()
						defer func() {
							if p := recover(); p != nil {
								atomic.AddInt32(&bad, 1)
							}
						}()
						for k := 0; k < 4000; k++ {
							pl, hh, e := generatePayload(size)
							s2 := sha256.Sum256(pl)
							if e != nil || len(pl) != size || !bytes.Equal(hh, s2[:]) {
								atomic.AddInt32(&bad, 1)
							}
						}
					}()
				}
				wg.Wait()
				v["hashok"] = ok && atomic.LoadInt32(&bad) == 0
			}
		}()
		if e := enc.Encode(v); e != nil {
			t.Fatal(e)
		}
	}
	// seeded sweep of arbitrary (base <= max, retries): results in microseconds
	r := rand.New(rand.NewSource(seed))
	for k := 0; k < nsweep; k++ {
		base := 1 + r.Intn(2000000)           // up to 2 s in microseconds
		max := base + r.Intn(1500000000-base) // up to 25 min
		if k%5 == 0 {
			max = base
		}
		rs := []int{}
		for _, n := range []int{0, 1, 2, 3, 5, 8, 13, 21, 40, 100, 1000, 1000000} {
			rs = append(rs, int(backoff(time.Duration(base)*time.Microsecond, time.Duration(max)*time.Microsecond, n)/time.Microsecond))
		}
		if e := enc.Encode(map[string]interface{}{"kind": "sweep", "id": id, "base": base, "max": max, "rs": rs, "panic": false}); e != nil {
			t.Fatal(e)
		}
		id++
	}
	fmt.Printf("VERIF-PROBER vectors=%d\n", id)
}
